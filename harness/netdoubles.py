"""Scripted TCP endpoints living in the stub kernel (harness/stubkernel.py): a listening socket and connection
sockets whose readiness is derived from what the scripted peer did.  They subclass socket.socket (without opening a
real descriptor) because circuits.web tests `isinstance(x, socket)` in places."""

import errno
import os
import socket


def _err(e):
    return OSError(e, os.strerror(e))


class _Base(socket.socket):
    def __init__(self, kernel, label):
        # deliberately no super().__init__(): no real descriptor is opened
        self.kernel = kernel
        self.label = label
        self.closed = False
        self.no = kernel._alloc(self)

    def fileno(self):
        return -1 if self.closed else self.no

    def close(self):
        if not self.closed:
            self.closed = True
            self.kernel._release(self)
            self.on_close()

    def on_close(self):
        pass

    def shutdown(self, how):
        if self.closed:
            raise _err(errno.EBADF)

    def setblocking(self, flag):
        pass

    def setsockopt(self, *a):
        pass

    def getsockname(self):
        return ('10.0.0.2', 80)

    def __repr__(self):
        return '<%s #%s%s>' % (self.label, self.no, ' closed' if self.closed else '')

    def __del__(self):
        pass

    def __enter__(self):
        return self

    def __exit__(self, *a):
        pass

    # kernel-visible status bits (overridden)
    readable = writable = hup = err = False


class ListenSock(_Base):
    def __init__(self, kernel, label='listen'):
        _Base.__init__(self, kernel, label)
        self.pending = []

    @property
    def readable(self):
        return bool(self.pending)

    def accept(self):
        if self.closed:
            raise _err(errno.EBADF)
        if not self.pending:
            raise _err(errno.EWOULDBLOCK)
        c = self.pending.pop(0)
        # a connection the peer has reset while it sat in the backlog is still handed out; it is no longer connected
        c.rst_before_accept = c.peer_rst
        return c, c.peer

    def listen(self, n):
        pass

    def bind(self, a):
        pass


class ConnSock(_Base):
    """server side of one connection; the peer is scripted through peer_* methods"""

    def __init__(self, kernel, label, peer=('10.0.0.9', 4000)):
        _Base.__init__(self, kernel, label)
        self.peer = peer
        self.inbox = []           # chunks the peer sent, not yet received
        self.peer_fin = False
        self.peer_rst = False
        self.blocked = False      # peer stopped reading: send() would block
        self.outbox = bytearray() # bytes accepted by send()
        self.sent_total = bytearray()   # everything the peer ever sent
        self.recv_after_close = 0
        self.send_after_close = 0
        self.shutdown_called = False
        self.recv_calls = 0
        self.rst_before_accept = False

    # -- peer script ---------------------------------------------------------
    def peer_send(self, data):
        self.inbox.append(bytes(data))
        self.sent_total += data

    def peer_close(self):
        self.peer_fin = True

    def peer_abort(self):
        self.peer_rst = True

    # -- kernel-visible status -------------------------------------------------
    @property
    def readable(self):
        return bool(self.inbox) or self.peer_fin or self.peer_rst

    @property
    def writable(self):
        return (not self.blocked) or self.peer_rst

    @property
    def hup(self):
        return self.peer_rst

    @property
    def err(self):
        return self.peer_rst

    # -- socket API used by circuits ----------------------------------------------
    def recv(self, n):
        self.recv_calls += 1
        if self.closed:
            self.recv_after_close += 1
            raise _err(errno.EBADF)
        if self.inbox:
            # a byte stream: everything pending is returned, up to n bytes
            data = b''.join(self.inbox)
            del self.inbox[:]
            if len(data) > n:
                self.inbox.append(data[n:])
                data = data[:n]
            return data
        if self.peer_rst:
            raise _err(errno.ECONNRESET)
        if self.peer_fin:
            return b''
        raise _err(errno.EWOULDBLOCK)

    def send(self, data):
        if self.closed:
            self.send_after_close += 1
            raise _err(errno.EBADF)
        if self.peer_rst:
            self.send_failed_epipe = True
            raise _err(errno.EPIPE)
        if self.blocked:
            raise _err(errno.EAGAIN)
        self.outbox += bytes(data)
        return len(data)

    def shutdown(self, how):
        if self.closed:
            raise _err(errno.EBADF)
        self.shutdown_called = True

    def getpeername(self):
        if self.closed:
            raise _err(errno.EBADF)
        if self.rst_before_accept:
            raise _err(errno.ENOTCONN)
        return self.peer


def retained(obj, needle, depth=0, seen=None, path=''):
    """walk vars(obj) recursively through dict/list/set/tuple/deque containers; return paths that hold `needle`"""
    from collections import deque
    if seen is None:
        seen = set()
    out = []
    try:
        items = list(vars(obj).items())
    except TypeError:
        return out
    for k, v in items:
        out.extend(_walk(v, needle, seen, '%s.%s' % (path, k), 0))
    return out


def _walk(v, needle, seen, path, depth):
    from collections import deque
    if v is needle:
        return [path]
    if depth > 4 or id(v) in seen:
        return []
    out = []
    if isinstance(v, dict):
        seen.add(id(v))
        for k, x in list(v.items()):
            if k is needle:
                out.append(path + '[key]')
            out.extend(_walk(x, needle, seen, path + '[..]', depth + 1))
    elif isinstance(v, (list, tuple, set, frozenset, deque)):
        seen.add(id(v))
        for x in list(v):
            out.extend(_walk(x, needle, seen, path + '[]', depth + 1))
    return out
