"""C16 -- static files: only contents from inside the document root, exact byte ranges.

Real code: Static._on_request, tools.serve_file, utils.get_ranges, HTTP._on_read (redirect guard), url.URL.sanitize.
pathex: request paths as sequences of hostile/benign segment choices on a real temporary directory tree, served behind
the HTTP front end and handed to the dispatcher directly; Range headers from a grammar on files of several sizes.
CrossHair: get_ranges on a symbolic header string and a symbolic content length.
"""

import atexit
import os
import shutil
import sys
import tempfile

sys.path.insert(0, os.path.dirname(os.path.dirname(os.path.abspath(__file__))))

from circuits.web import http as WH  # noqa: E402
from circuits.web import tools as WT  # noqa: E402
from circuits.web import utils as WU  # noqa: E402
from circuits.web import wrappers as WW  # noqa: E402
from circuits.web.dispatchers import static as ST  # noqa: E402
from circuits.web.events import request as request_event  # noqa: E402

from harness.common import Part, run_property  # noqa: E402
from harness.httpkit import Rig, parse_responses  # noqa: E402
from pathex import PathEnd  # noqa: E402

PROPERTY = 'C16'
EXPLANATION = ('C16: (paths) 1-3 segments from an alphabet of hostile and benign spellings are joined into a request path and sent '
               'to a real Static dispatcher over a real directory tree with a secret in the parent directory and a sibling whose '
               'name extends the docroot\'s, mounted at / or under a prefix, through the HTTP front end and directly; '
               '(ranges) CrossHair explores get_ranges on a symbolic Range string and length; a Range grammar is served on files of '
               'size 0/1/10 and the 206/416/200 response is compared with RFC 7233 semantics.')
ASSUMPTIONS = ['a real temporary directory tree is created per run (removed at exit)',
               'reference semantics for ranges: RFC 7233 (valid and satisfiable -> 206 with exactly those bytes; otherwise 416 or the full file)']
OUTSIDE = ['request paths as arbitrary character strings (posixpath.normpath is C code in 3.12: CrossHair degrades to sampling there); '
           'bounded by the segment alphabet instead', 'symlinks inside the docroot', 'coalescing of overlapping ranges in multipart/byteranges answers (each requested range is expected as its own part)']

SEGMENTS = ['..', '.', '', '%2e%2e', '%252e%252e', '..%2f', '..\\', '%2f', 'sub', 'file.txt', 'secret.txt', 'docrootx', 'sibling.txt', 'inner.txt']
M_PARENT = b'MARKER-PARENT-SECRET'
M_SIBLING = b'MARKER-SIBLING-SECRET'

_TREE = {}


def tree():
    if 'root' not in _TREE:
        base = tempfile.mkdtemp(prefix='verif-c16-')
        parent = os.path.join(base, 'parent')
        docroot = os.path.join(parent, 'docroot')
        os.makedirs(os.path.join(docroot, 'sub'))
        os.makedirs(os.path.join(parent, 'docrootx'))
        files = {
            os.path.join(parent, 'secret.txt'): M_PARENT,
            os.path.join(parent, 'docrootx', 'sibling.txt'): M_SIBLING,
            os.path.join(parent, 'docrootx', 'secret.txt'): M_SIBLING + b'2',
            # index documents of the directories outside the root
            os.path.join(parent, 'index.html'): b'<html>' + M_PARENT + b'-INDEX</html>',
            os.path.join(parent, 'docrootx', 'index.html'): b'<html>' + M_SIBLING + b'-INDEX</html>',
            os.path.join(docroot, 'sub', 'index.html'): b'<html>IN-SUB-INDEX</html>',
            os.path.join(docroot, 'file.txt'): b'IN-FILE-0123456789',
            os.path.join(docroot, 'sub', 'inner.txt'): b'IN-INNER',
            os.path.join(docroot, 'sub', 'file.txt'): b'IN-SUB-FILE',
            os.path.join(docroot, 'empty.bin'): b'',
            os.path.join(docroot, 'one.bin'): b'A',
            os.path.join(docroot, 'ten.bin'): b'0123456789',
        }
        for p, c in files.items():
            open(p, 'wb').write(c)
        _TREE.update(root=base, parent=parent, docroot=docroot, files=files)
        pid = os.getpid()
        atexit.register(lambda: os.getpid() == pid and shutil.rmtree(base, ignore_errors=True))
    return _TREE


_OPENED = []
_AUDIT = {'on': False}


def _audit(event, args):
    if _AUDIT['on'] and event == 'open' and isinstance(args[0], str):
        _OPENED.append(args[0])


sys.addaudithook(_audit)


def inside(path, root):
    rp = os.path.realpath(path)
    rr = os.path.realpath(root)
    return rp == rr or rp.startswith(rr + os.sep)


def make_paths_harness(n_segments):
    def harness(g):
        t = tree()
        mount = g.pick('mount', [None, '/static'])
        entry = g.pick('entry', ['http', 'direct'])
        nseg = g.pick('nseg', list(range(1, n_segments + 1)))
        segs = [g.pick('seg%d' % i, SEGMENTS + ['<ABS-SECRET>', '<ABS-PARENT>']) for i in range(nseg)]
        # an encoded slash followed by an absolute path: decodes to an absolute path, which os.path.join would take as is
        from urllib.parse import quote as _q
        segs = [('%2F' + _q(os.path.join(t['parent'], 'secret.txt').lstrip('/'), safe='')) if x == '<ABS-SECRET>' else
                (('%2F' + _q(t['parent'].lstrip('/'), safe='')) if x == '<ABS-PARENT>' else x) for x in segs]
        path = (mount or '') + '/' + '/'.join(segs)
        dirlisting = g.flag('dirlisting')
        rig = Rig(ST.Static, {'path': mount, 'docroot': t['docroot'], 'dirlisting': dirlisting})
        sock = rig.new_sock()
        del _OPENED[:]
        _AUDIT['on'] = True
        try:
            if entry == 'http':
                rig.feed(sock, ('GET %s HTTP/1.1\r\nHost: example.org\r\n\r\n' % path).encode('latin1'))
            else:
                # a front end that does not canonicalise (WSGI application mode, a custom dispatcher): raw path handed over
                req = WW.Request(sock, 'GET', 'http', path, (1, 1), '', server=rig.server)
                res = WW.Response(req, encoding='utf-8')
                rig.root.fire(request_event(req, res), 'web')
                rig.settle()
        finally:
            _AUDIT['on'] = False
        out = rig.out(sock)
        w = {'entry': entry, 'mount': mount or '/', 'dirlisting': dirlisting}
        detail = 'path=%r entry=%s mount=%s out=%r exceptions=%s' % (path, entry, mount, out[:200], rig.exceptions[:1])
        g.note({'path': path, 'entry': entry, 'mount': mount or '/', 'status_line': out.split(b'\r\n')[0].decode('latin1') if out else None})
        outside_opened = [p for p in _OPENED if p.startswith(t['root']) and not inside(p, t['docroot'])]
        if M_PARENT in out or M_SIBLING in out:
            w['leak'] = 'parent' if M_PARENT in out else 'sibling'
            g.fail('content-from-outside-docroot', w, detail)
            raise PathEnd()
        if b'<title>Index of' in out and any(b'>%s</a>' % n in out for n in (b'secret.txt', b'sibling.txt', b'docrootx/', b'docroot/')):
            # a listing with entries that exist only outside the root
            w['leak'] = 'listing'
            g.fail('content-from-outside-docroot', w, detail)
            raise PathEnd()
        if outside_opened:
            w['leak'] = 'parent' if any(not p.startswith(t['parent'] + os.sep + 'docrootx') for p in outside_opened) else 'sibling'
            g.fail('file-outside-docroot-opened', w, 'opened %s; %s' % (outside_opened[:2], detail))
            raise PathEnd()
        if not out:
            return
        try:
            resps = parse_responses(out, eof=rig.conn(sock)['closed'])
        except ValueError as e:
            g.fail('response-not-well-formed', w, '%s; %s' % (e, detail))
            raise PathEnd()
        r = resps[0]
        if r['status'] >= 500:
            g.fail('internal-error', w, detail)
        elif r['status'] == 200:
            contents = {c for p, c in t['files'].items() if inside(p, t['docroot'])}
            if r['body'] not in contents and b'<title>' not in r['body']:
                g.fail('body-is-not-a-docroot-file', w, detail)
                raise PathEnd()
            # the file the normalised path denotes
            import posixpath
            from urllib.parse import unquote
            rel = path[len(mount):] if mount else path
            norm = posixpath.normpath('/' + unquote(rel).strip('/'))
            loc = os.path.join(t['docroot'], norm.lstrip('/'))
            if os.path.isfile(loc) and inside(loc, t['docroot']):
                if r['body'] != open(loc, 'rb').read():
                    g.fail('wrong-file-served', w, 'expected contents of %s; %s' % (loc, detail))
    return harness


RANGES = ['bytes=0-0', 'bytes=0-', 'bytes=-1', 'bytes=-0', 'bytes=5-2', 'bytes=0-100', 'bytes=100-', 'bytes=-100', 'bytes=', 'bytes=x-y',
          'bytes=2-4', 'bytes=9-9', 'bytes=10-12', 'bytes=0-0,2-3', 'bytes=0-5,3-8', 'bytes=-', 'bytes=1', 'lines=0-1', 'bytes=0-0,-1', 'bytes= 1 - 2 ',
          'bytes=4-', 'bytes=-3', 'bytes=1-1,1-1', 'bytes=5-7,0-2', 'bytes=0-4,2-6', 'bytes=-3,0-2', 'bytes=0-2,6-8,3-5', 'bytes=0-1,2-3', 'bytes=10-', 'bytes=1-', 'bytes=10-,0-0', 'bytes=12-,-2']


def rfc_one(p, n):
    """one byte-range-spec against length n: ('invalid',) | ('unsat',) | ('ok', a, b)"""
    if '-' not in p:
        return ('invalid',)
    a, b = [x.strip() for x in p.split('-', 1)]
    if a == '':
        if not b.isdigit():
            return ('invalid',)
        k = int(b)
        if k == 0 or n == 0:
            return ('unsat',)
        return ('ok', max(0, n - k), n - 1)
    if not a.isdigit() or (b != '' and not b.isdigit()):
        return ('invalid',)
    a = int(a)
    if b != '' and int(b) < a:
        return ('invalid',)
    if a >= n:
        return ('unsat',)
    bb = n - 1 if b == '' else min(int(b), n - 1)
    return ('ok', a, bb)


def rfc_range(spec, n):
    """RFC 7233 reading of a Range header: ('invalid',), ('unsat',), ('multi', k) or ('ok', a, b)"""
    if '=' not in spec or spec.split('=', 1)[0].strip().lower() != 'bytes':
        return ('invalid',)
    parts = [rfc_one(p.strip(), n) for p in spec.split('=', 1)[1].split(',')]
    if any(p[0] == 'invalid' for p in parts):
        return ('invalid',)
    ok = []
    for p in parts:
        if p[0] == 'ok' and p not in ok:
            ok.append(p)
    if not ok:
        return ('unsat',)
    if len(ok) == 1:
        return ok[0]
    return ('multi', len(ok))


def make_ranges_harness():
    def harness(g):
        t = tree()
        fname, content = g.pick('file', [('empty.bin', b''), ('one.bin', b'A'), ('ten.bin', b'0123456789')])
        spec = g.pick('range', RANGES)
        rig = Rig(ST.Static, {'path': None, 'docroot': t['docroot']})
        sock = rig.new_sock()
        rig.feed(sock, ('GET /%s HTTP/1.1\r\nHost: example.org\r\nRange: %s\r\n\r\n' % (fname, spec)).encode())
        out = rig.out(sock)
        n = len(content)
        kind = rfc_range(spec, n)
        w = {'range': spec, 'file_size': n, 'rfc': kind[0]}
        detail = 'file=%s (%d bytes) Range=%r rfc=%s out=%r exceptions=%s' % (fname, n, spec, kind, out[:260], rig.exceptions[:1])
        g.note({'file_size': n, 'range': spec, 'rfc': kind, 'status_line': out.split(b'\r\n')[0].decode('latin1') if out else None})
        if not out:
            g.fail('no-response', w, detail)
            raise PathEnd()
        try:
            r = parse_responses(out, eof=rig.conn(sock)['closed'])[0]
        except ValueError as e:
            g.fail('response-not-well-formed', w, '%s; %s' % (e, detail))
            raise PathEnd()
        if r['status'] >= 500:
            g.fail('internal-error', w, detail)
            raise PathEnd()
        hdr = dict(r['headers'])
        if r['status'] == 206 and 'multipart/byteranges' not in hdr.get('content-type', ''):
            cr = hdr.get('content-range', '')
            import re
            m = re.match(r'^bytes (\d+)-(\d+)/(\d+)$', cr)
            if not m:
                g.fail('content-range-malformed', w, detail)
                raise PathEnd()
            a, b, total = int(m.group(1)), int(m.group(2)), int(m.group(3))
            if not (0 <= a <= b < n) or total != n:
                g.fail('range-beyond-file', w, detail)
            elif r['body'] != content[a:b + 1]:
                g.fail('range-body-mismatch', w, detail)
            elif kind[0] != 'ok' or (a, b) != (kind[1], kind[2]):
                g.fail('range-not-the-requested-bytes', w, detail)
        elif r['status'] == 206:
            if kind[0] != 'multi':
                g.fail('multipart-for-a-single-range', w, detail)
            # every part carries exactly the bytes its own Content-range line announces
            import re
            mb = re.search(r'boundary=([^;\s]+)', hdr.get('content-type', ''))
            if not mb:
                g.fail('multipart-without-boundary', w, detail)
                raise PathEnd()
            delim = b'--' + mb.group(1).strip('"').encode()
            pieces = r['body'].split(delim)
            if len(pieces) < 3 or not pieces[-1].startswith(b'--'):
                g.fail('multipart-malformed', w, detail)
                raise PathEnd()
            nparts = 0
            for piece in pieces[1:-1]:
                head, sep, body = piece.partition(b'\r\n\r\n')
                m = re.search(rb'[Cc]ontent-[Rr]ange: bytes (\d+)-(\d+)/(\d+)', head)
                if not sep or not m:
                    g.fail('multipart-malformed', w, '%r; %s' % (piece[:60], detail))
                    raise PathEnd()
                a, b, total = int(m.group(1)), int(m.group(2)), int(m.group(3))
                if body.endswith(b'\r\n'):
                    body = body[:-2]
                nparts += 1
                if not (0 <= a <= b < n) or total != n:
                    g.fail('range-beyond-file', w, 'part %d-%d/%d; %s' % (a, b, total, detail))
                elif body != content[a:b + 1]:
                    g.fail('range-body-mismatch', w, 'part %d-%d holds %r, the file has %r; %s' % (a, b, body, content[a:b + 1], detail))
            if kind[0] == 'multi' and nparts != kind[1]:
                g.fail('multipart-part-count', w, '%d parts, %d distinct satisfiable ranges requested; %s' % (nparts, kind[1], detail))
        elif r['status'] == 416:
            if kind[0] in ('ok', 'multi'):
                g.fail('satisfiable-range-refused', w, detail)
            if hdr.get('content-range') != 'bytes */%d' % n:
                g.fail('416-without-content-range', w, detail)
        elif r['status'] == 200:
            if r['body'] != content:
                g.fail('full-body-mismatch', w, detail)
            if kind[0] in ('ok', 'multi'):
                g.fail('satisfiable-range-ignored', w, detail)
            if kind[0] == 'unsat' and spec.startswith('bytes=') and n > 0:
                # well-formed but beyond the file: the RFC's answer is 416 with `bytes */length`, the full file is for malformed headers
                g.fail('unsatisfiable-range-answered-with-full-file', w, detail)
        else:
            g.fail('unexpected-status', w, detail)
    return harness


XH_PREAMBLE = '''
from circuits.web.utils import get_ranges
from circuits.web.exceptions import RangeUnsatisfiable
'''

XH_CONDITIONS = [
    {'name': 'ranges_within_file', 'clause': 'get-ranges-beyond-file-or-crash', 'timeout': 60, 'src': '''
def ranges_within_file(s: str, n: int) -> bool:
    """
    pre: len(s) <= 3
    pre: 0 <= n <= 12
    post: _
    """
    try:
        r = get_ranges('bytes=' + s, n)
    except RangeUnsatisfiable:
        return True
    if r is None:
        return True
    return all(isinstance(a, int) and isinstance(b, int) and 0 <= a < b <= n for a, b in r)
'''},
    {'name': 'ranges_suffix', 'clause': 'get-ranges-wrong-slice', 'timeout': 40, 'src': '''
def ranges_suffix(k: int, n: int) -> bool:
    """
    pre: 0 <= k <= 12 and 0 <= n <= 10
    post: _
    """
    r = get_ranges('bytes=-%d' % k, n)
    if k == 0 or n == 0:
        return r == [] or r is None
    return r == [(max(0, n - k), n)]
'''},
]

def make_numeric_harness():
    def harness(g):
        a = int(g.int('a', 0, 14))
        b = int(g.int('b', 0, 14))
        n = int(g.int('n', 0, 12))
        form = g.pick('form', ['a-b', 'a-', '-b', 'a-b,a-b', ' a - b '])
        spec = {'a-b': 'bytes=%d-%d' % (a, b), 'a-': 'bytes=%d-' % a, '-b': 'bytes=-%d' % b, 'a-b,a-b': 'bytes=%d-%d,%d-%d' % (a, b, a, b),
                ' a - b ': 'bytes= %d - %d ' % (a, b)}[form]
        try:
            r = WU.get_ranges(spec, n)
        except Exception as e:  # noqa
            g.fail('get-ranges-raises', {'form': form}, '%r for (%r, %d)' % (e, spec, n))
            return
        kind = rfc_range(spec, n)
        g.note({'spec': spec, 'n': n, 'result': r, 'rfc': kind})
        w = {'form': form, 'rfc': kind[0]}
        detail = 'get_ranges(%r, %d) = %r, RFC 7233: %s' % (spec, n, r, kind)
        if kind[0] == 'ok':
            if r != [(kind[1], kind[2] + 1)]:
                g.fail('get-ranges-wrong-slice', w, detail)
        elif kind[0] == 'unsat':
            if r not in ([], None):
                g.fail('get-ranges-unsatisfiable-accepted', w, detail)
        elif kind[0] == 'invalid':
            if r not in (None, []):
                g.fail('get-ranges-invalid-accepted', w, detail)
        if r:
            for (x, y) in r:
                if not (0 <= x < y <= n):
                    g.fail('get-ranges-beyond-file', w, detail)
    return harness


ENC_P = [ST.Static._on_request, WT.serve_file, WH.HTTP._on_read]
ENC_R = [ST.Static._on_request, WT.serve_file, WU.get_ranges]


def canaries():
    from harness.common import mutate
    return [
        ('no-containment-check', 'paths', lambda: mutate(ST.Static, '_on_request', 'if location != self.docroot and not location.startswith(self.docroot + os.sep):', 'if False:'), None),
        ('multipart-seek-skipped', 'serve-ranges', lambda: mutate(WT, 'serve_file', 'bodyfile.seek(start)', 'pass'), ['range-body-mismatch']),
        ('listing-outside-root', 'paths', lambda: mutate(ST.Static, '_on_request', 'directory = os.path.abspath(os.path.join(self.docroot, path))', "directory = os.path.abspath(os.path.join(self.docroot, path, '..'))"), None),
        ('range-stop-off-by-one', 'serve-ranges', lambda: mutate(WT, 'get_ranges', 'result.append((start, stop + 1))', 'result.append((start, stop))'), None),
    ]


def parts(tier):
    tree()      # built once in the parent: the forked workers share it, and only the parent removes it at exit
    xh = Part('get-ranges-symbolic', kind='crosshair', conditions=XH_CONDITIONS,
              bounds={'header': "'bytes=' + s, len(s) <= 3 (symbolic str)", 'content_length': '0..12 (symbolic int)', 'suffix': 'k in 0..12, n in 0..10'})
    xh.xh_preamble = XH_PREAMBLE
    nseg = 3 if tier == 'quick' else 4
    return [
        Part('paths', make_paths_harness(nseg), bounds={'segments': SEGMENTS, 'max_segments': nseg, 'mount': ['/', '/static'], 'entry': ['http front end', 'direct request event']},
             encoded=ENC_P, budget_s=85 if tier == 'quick' else 1500),
        Part('get-ranges-numeric', make_numeric_harness(), bounds={'a': '0..14', 'b': '0..14', 'n': '0..12', 'forms': ['a-b', 'a-', '-b', 'a-b,a-b', ' a - b ']}, encoded=[WU.get_ranges], budget_s=60),
        Part('serve-ranges', make_ranges_harness(), bounds={'ranges': RANGES, 'file_sizes': [0, 1, 10]}, encoded=ENC_R, budget_s=60),
        xh,
    ]


if __name__ == '__main__':
    sys.exit(run_property(sys.modules[__name__]))
