"""C01 -- events reach exactly the matching handlers, once, using the live handler set.

Real code: Manager.getHandlers/addHandler/removeHandler/registerChild/unregisterChild/_dispatcher (cache)/
fireEvent/_flush, BaseComponent.__new__/__init__/register/unregister/_do_prepare_unregister_complete/_updateRoot,
handler(), HandlerMetaClass.  Choices: the history of structural operations, dynamic handler changes and probes.
"""

import os
import sys

sys.path.insert(0, os.path.dirname(os.path.dirname(os.path.abspath(__file__))))

from circuits.core import manager as M  # noqa: E402
from circuits.core import components as CM  # noqa: E402
from circuits.core import handlers as H  # noqa: E402
from circuits.core.components import BaseComponent, Component  # noqa: E402
from circuits.core.events import Event  # noqa: E402
from circuits.core.handlers import handler  # noqa: E402

from harness.common import Part, run_property  # noqa: E402
from pathex import PathEnd  # noqa: E402

PROPERTY = 'C01'
EXPLANATION = ('C01: a history of register/unregister/addHandler/removeHandler operations, probe bundles (every name x target '
               'channel incl. component instances) and flushes is drawn over a pool of components with different handler '
               'declaration styles; after each flush the (component, handler) multiset that saw each probe is compared with the '
               'reference computed by the statement\'s matching rule from ghost handler tables and the live tree.')
ASSUMPTIONS = [
    'register(c,p) only with c detached and not pending, p outside c\'s subtree (the operation\'s documented use)',
    'one target channel per fire',
    'the tree in force "when the event is dispatched" is the tree of the root whose flush dispatches it, read from the public '
    'parent/components links when the first handler of that event runs (these links are checked by C07)',
    'an event whose firing component has left the dispatching tree between fire and flush is not judged (statement is silent)',
]
OUTSIDE = ['pool/history sizes beyond the bounds', 'multi-channel fires', 'removal of catch-all/global handlers (removeHandler has no API for it)']


class probe(Event):
    pass


NAMES = ('x', 'y')


def build_pool(record, kinds):
    """returns list of (component, ghost handler table).  ghost entry: dict(label, names(tuple or ()), channel(None=own), is_global)"""

    def rec(self, label, event):
        if isinstance(event, probe):
            record(event.args[0], self._idx, label)

    class K0(BaseComponent):
        channel = 'a'

        @handler('x')
        def hx(self, event, *a, **k):
            rec(self, 'hx', event)

        @handler()
        def hall(self, event, *a, **k):
            rec(self, 'hall', event)

        @handler(channel='*', priority=100)
        def spy(self, event, *a, **k):
            rec(self, 'spy', event)

    class K1(Component):
        channel = 'b'

        def x(self, event, *a, **k):
            rec(self, 'x', event)

        def y(self, event, *a, **k):
            rec(self, 'y', event)

        @handler(channel='*', priority=100)
        def spy(self, event, *a, **k):
            rec(self, 'spy', event)

    class Base(BaseComponent):
        @handler('x')
        def hx(self, event, *a, **k):
            rec(self, 'Base.hx', event)

        @handler('y')
        def hy(self, event, *a, **k):
            rec(self, 'Base.hy', event)

    class K2(Base):
        channel = 'b'

        @handler('x', channel='a', override=True)
        def hx(self, event, *a, **k):
            rec(self, 'K2.hx', event)

        @handler(channel='*', priority=100)
        def spy(self, event, *a, **k):
            rec(self, 'spy', event)

    class K3(Base):
        channel = '*'

        @handler('x')
        def hx(self, event, *a, **k):
            rec(self, 'K3.hx', event)

        @handler(channel='*', priority=100)
        def spy(self, event, *a, **k):
            rec(self, 'spy', event)

    spyg = {'label': 'spy', 'names': (), 'channel': '*', 'global': True}
    ghosts = {
        'K0': [{'label': 'hx', 'names': ('x',), 'channel': None}, {'label': 'hall', 'names': (), 'channel': None}, spyg],
        'K1': [{'label': 'x', 'names': ('x',), 'channel': None}, {'label': 'y', 'names': ('y',), 'channel': None}, spyg],
        'K2': [{'label': 'K2.hx', 'names': ('x',), 'channel': 'a'}, {'label': 'Base.hy', 'names': ('y',), 'channel': None}, spyg],
        'K3': [{'label': 'K3.hx', 'names': ('x',), 'channel': None}, {'label': 'Base.hx', 'names': ('x',), 'channel': None},
               {'label': 'Base.hy', 'names': ('y',), 'channel': None}, spyg],
    }
    classes = {'K0': K0, 'K1': K1, 'K2': K2, 'K3': K3}
    pool = []
    for i, k in enumerate(kinds):
        c = classes[k]()
        c._idx = i
        pool.append((c, [dict(h) for h in ghosts[k]]))
    return pool


def matches(h, comp_channel, comp, name, target):
    if h.get('global'):
        return True
    if h['names'] and name not in h['names']:
        return False
    hc = h['channel'] if h['channel'] is not None else comp_channel
    return target == '*' or hc == '*' or hc == target or target is comp


def make_harness(kinds, length, with_handlers=True, with_structure=True, deferred=True, max_flush=8):
    n = len(kinds)

    def harness(g):
        log = []
        first_seen = {}     # event id -> set of pool idx in the dispatching tree when its first handler ran
        state = {'eid': 0, 'dyn': 0, 'root': None}
        comps = []
        idx_of = {}

        def tree_of(root):
            out, stack = set(), [root]
            while stack:
                c = stack.pop()
                if id(c) in idx_of:
                    out.add(idx_of[id(c)])
                stack.extend(list(c.components))
            return out

        def record(eid, ci, label):
            if eid not in first_seen and state['root'] is not None:
                first_seen[eid] = tree_of(state['root'])
            log.append((eid, ci, label))

        pool = build_pool(record, kinds)
        comps.extend(c for c, _ in pool)
        ghost = [t for _, t in pool]
        for i, c in enumerate(comps):
            idx_of[id(c)] = i
        dyn = [[] for _ in comps]        # per comp: list of [ghost entry, bound method]
        queued = {}                      # eid -> dict(name, target, tlabel, firer)
        history = []
        targets = ['a', 'b', '*'] + ['inst%d' % i for i in range(n)]

        def roots():
            return [c for c in comps if c.parent is c]

        def in_subtree(x, top):
            while True:
                if x is top:
                    return True
                if x.parent is x:
                    return False
                x = x.parent

        def expected_for(ev, tree):
            out = []
            tgt = comps[int(ev['tlabel'][4:])] if ev['tlabel'].startswith('inst') else ev['tlabel']
            for ci in sorted(tree):
                c = comps[ci]
                for h in ghost[ci] + [d[0] for d in dyn[ci]]:
                    if matches(h, c.channel, c, ev['name'], tgt):
                        out.append((ci, h['label']))
            return sorted(out)

        def fire_bundle(ci):
            c = comps[ci]
            for name in NAMES:
                for tl in targets:
                    eid = state['eid']
                    state['eid'] += 1
                    tgt = comps[int(tl[4:])] if tl.startswith('inst') else tl
                    queued[eid] = {'name': name, 'tlabel': tl, 'firer': ci, 'queue_root': c.root}
                    e = probe(eid)
                    e.name = name
                    c.fire(e, tgt)

        def flush_once(stepno):
            """one flush of every current root; judge every probe that left a queue"""
            for r in roots():
                if not len(r._queue):
                    continue
                before_tree = tree_of(r)
                state['root'] = r
                mark = len(log)
                r.flush()
                state['root'] = None
                after_tree = tree_of(r)
                seen = {}
                for (eid, ci, label) in log[mark:]:
                    seen.setdefault(eid, []).append((ci, label))
                # which probes were in r's queue? those queued on r (queue_root) and not yet judged, that are not still queued
                still = set()
                for (prio, cnt, (ev, ch)) in list(r._queue._queue) + list(r._queue._priority_queue):
                    if isinstance(ev, probe):
                        still.add(ev.args[0])
                for eid in sorted(list(queued)):
                    ev = queued[eid]
                    if ev['queue_root'] is not r and eid not in seen:
                        continue
                    if eid in still:
                        continue
                    got = sorted(seen.get(eid, []))
                    del queued[eid]
                    w = {'step': stepno}
                    if eid in first_seen:
                        tree = first_seen[eid]
                        if ev['firer'] not in tree:
                            continue          # firing component left the dispatching tree: not judged
                        exp = expected_for(ev, tree)
                        if got != exp:
                            kind = 'delivered-twice' if len(set(got)) != len(got) else ('missing-handler' if set(exp) - set(got) else 'extra-handler')
                            g.fail(kind, {}, 'event %s/%s fired by c%d: got %s expected %s; history=%s' % (ev['name'], ev['tlabel'], ev['firer'], got, exp, history))
                            raise PathEnd()
                    else:
                        # nobody saw it: a violation only if some handler matches in the tree both before and after the flush
                        if ev['firer'] not in before_tree or ev['firer'] not in after_tree:
                            continue
                        e1 = set(expected_for(ev, before_tree))
                        e2 = set(expected_for(ev, after_tree))
                        if e1 & e2:
                            g.fail('missing-handler', {}, 'event %s/%s fired by c%d seen by nobody, expected at least %s; history=%s' % (ev['name'], ev['tlabel'], ev['firer'], sorted(e1 & e2), history))
                            raise PathEnd()

        def settle(stepno):
            for _ in range(max_flush):
                if not any(len(r._queue) for r in roots()):
                    return
                flush_once(stepno)
            g.fail('never-quiescent', {}, str(history))
            raise PathEnd()

        for step in range(length):
            ops = []
            if with_structure:
                for ci, c in enumerate(comps):
                    if c.parent is c and not c.unregister_pending:
                        for pi, p in enumerate(comps):
                            if pi != ci and not in_subtree(p, c):
                                ops.append(('register', ci, pi))
                    if c.parent is not c and not c.unregister_pending:
                        ops.append(('unregister', ci))
            if with_handlers:
                for ci in range(n):
                    for k in range(3):
                        ops.append(('add', ci, k))
                    for di, d in enumerate(dyn[ci]):
                        if d[0]['names']:
                            ops.append(('remove', ci, di))
                    named = [h for h in ghost[ci] if h['names'] and not h.get('removed')]
                    if named:
                        ops.append(('remove-declared', ci))
            for ci in range(n):
                ops.append(('probe', ci))
                if deferred:
                    ops.append(('fire-deferred', ci))
            ops.append(('flush-once',))
            ops.append(('stop',))
            op = g.pick('op%d' % step, ops)
            history.append(op)
            if op[0] == 'stop':
                break
            if op[0] == 'register':
                comps[op[1]].register(comps[op[2]])
            elif op[0] == 'unregister':
                comps[op[1]].unregister()
            elif op[0] == 'add':
                ci, k = op[1], op[2]
                state['dyn'] += 1
                label = 'dyn%d' % state['dyn']

                def mk(label, ci):
                    def f(self, event, *a, **kw):
                        if isinstance(event, probe):
                            record(event.args[0], ci, label)
                    f.__name__ = label
                    return f
                f = mk(label, ci)
                if k == 0:
                    hf, gh = handler('x')(f), {'label': label, 'names': ('x',), 'channel': None}
                elif k == 1:
                    hf, gh = handler(channel='a')(f), {'label': label, 'names': (), 'channel': 'a'}
                else:
                    hf, gh = handler(channel='*')(f), {'label': label, 'names': (), 'channel': '*', 'global': True}
                m = comps[ci].addHandler(hf)
                dyn[ci].append([gh, m])
            elif op[0] == 'remove':
                ci, di = op[1], op[2]
                gh, m = dyn[ci].pop(di)
                comps[ci].removeHandler(m)
            elif op[0] == 'remove-declared':
                ci = op[1]
                h = [h for h in ghost[ci] if h['names'] and not h.get('removed')][0]
                # find the bound method by its recorded label
                meth = None
                for hs in comps[ci]._handlers.values():
                    for m in hs:
                        if getattr(m, '__qualname__', '').endswith(h['label'].split('.')[-1]) and getattr(m, '__self__', None) is comps[ci]:
                            if h['label'].startswith('Base.') != ('Base.' in m.__qualname__):
                                continue
                            meth = m
                if meth is None:
                    continue
                comps[ci].removeHandler(meth)
                ghost[ci].remove(h)
            elif op[0] == 'probe':
                fire_bundle(op[1])
                settle(step)
            elif op[0] == 'fire-deferred':
                fire_bundle(op[1])
            elif op[0] == 'flush-once':
                flush_once(step)
        # final: everything still queued is dispatched and judged
        for ci in range(n):
            fire_bundle(ci)
        settle(length)
        g.note({'kinds': kinds, 'history': [list(map(str, h)) for h in history]})
    return harness


ENC = [M.Manager.getHandlers, M.Manager.addHandler, M.Manager.registerChild, M.Manager.unregisterChild,
       M.Manager._dispatcher, M.Manager.fireEvent, M.Manager._flush, CM.BaseComponent.register, CM.BaseComponent.unregister,
       CM.BaseComponent._do_prepare_unregister_complete, CM.BaseComponent._updateRoot]


def canaries():
    from harness.common import mutate
    return [
        ('unregisterChild-no-invalidate', 'structure', lambda: mutate(M.Manager, 'unregisterChild', 'self.root._cache_needs_refresh = True', 'pass'), None),
        ('removeHandler-invalidate-only-when-last', 'handlers', lambda: mutate(
            M.Manager, 'removeHandler', "                pass\n\n    self.root._cache_needs_refresh = True", "                pass\n            self.root._cache_needs_refresh = True"), None),
        ('addHandler-no-invalidate', 'handlers', lambda: mutate(M.Manager, 'addHandler', 'self.root._cache_needs_refresh = True', 'pass'), None),
        ('registerChild-no-invalidate', 'structure', lambda: mutate(M.Manager, 'registerChild', 'self.root._cache_needs_refresh = True', 'pass'), None),
        ('instance-target-matches-everything', 'structure', lambda: mutate(M.Manager, 'getHandlers', 'or channel is self', 'or isinstance(channel, Manager)'), None),
        ('no-recursion-into-grandchildren', 'structure', lambda: mutate(M.Manager, 'getHandlers', 'handlers.update(c.getHandlers(event, channel, **kwargs))', 'handlers.update(c.getHandlers(event, channel, **kwargs) if c.parent is self.root else ())'), None),
    ]


def parts(tier):
    if tier == 'quick':
        return [
            Part('structure', make_harness(['K0', 'K1', 'K2'], 5, with_handlers=False, deferred=False),
                 bounds={'pool': ['K0', 'K1', 'K2'], 'history_length': 5, 'ops': 'register/unregister/probe(+flush to quiescence)/flush-once'},
                 encoded=ENC, budget_s=80),
            Part('handlers', make_harness(['K0', 'K1'], 4, with_handlers=True, deferred=True),
                 bounds={'pool': ['K0', 'K1'], 'history_length': 4, 'ops': 'register/unregister/addHandler x3 kinds/removeHandler/probe/fire-deferred/flush-once'},
                 encoded=ENC + [M.Manager.removeHandler], budget_s=80),
        ]
    return [
        Part('structure', make_harness(['K0', 'K1', 'K2'], 6, with_handlers=False, deferred=False),
             bounds={'pool': ['K0', 'K1', 'K2'], 'history_length': 6, 'ops': 'register/unregister/probe(+flush to quiescence)/flush-once'}, encoded=ENC, budget_s=1500),
        Part('handlers', make_harness(['K0', 'K3'], 5, with_handlers=True, deferred=True),
             bounds={'pool': ['K0', 'K3'], 'history_length': 5}, encoded=ENC + [M.Manager.removeHandler], budget_s=1500),
    ]


if __name__ == '__main__':
    sys.exit(run_property(sys.modules[__name__]))
