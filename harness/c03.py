"""C03 -- fire() from other threads: nothing lost or duplicated, loop always wakes.

The *schedule* is the symbolic variable.  The loop thread (real Manager.run()) and the firing thread(s) are real Python
threads serialised by a baton; every source line executed inside the traced circuits functions is a possible
pre-emption point; the positions of at most P pre-emptions are solver-enumerated choice variables.  RLock and
helpers.Event are scheduler-aware doubles: a blocked untimed wait never times out by itself.
Real code: Manager._fire (foreign-thread branch)/fireEvent/_dispatcher (generate_events arming)/tick/_flush,
_EventQueue.append/dispatchEvents, generate_events.reduce_time_left, FallBackGenerator._on_generate_events/resume.
"""

import os
import sys
import threading

sys.path.insert(0, os.path.dirname(os.path.dirname(os.path.abspath(__file__))))

from circuits.core import events as EV  # noqa: E402
from circuits.core import helpers as HP  # noqa: E402
from circuits.core import manager as M  # noqa: E402
from circuits.core import pollers as PL  # noqa: E402
from circuits.core.components import BaseComponent  # noqa: E402
from circuits.core.events import Event  # noqa: E402
from circuits.core.handlers import handler  # noqa: E402

from harness.common import Part, run_property  # noqa: E402
from pathex import PathEnd  # noqa: E402

PROPERTY = 'C03'
EXPLANATION = ('C03: the loop thread and the firing threads are real threads run one at a time under a baton; after every source '
               'line of the traced functions the scheduler may pre-empt; the positions of at most P pre-emptions (and which '
               'thread takes over) are choice variables enumerated exhaustively; lock and idle-wait are scheduler-aware doubles.  '
               'Every schedule must dispatch every fired event exactly once in per-thread order, and must never reach the state '
               '"loop blocked in its untimed idle wait, queue non-empty, nobody else runnable".')
ASSUMPTIONS = [
    'pre-emption at source-line granularity inside the traced functions (CPython switches threads between bytecodes; finer points inside one line are not explored)',
    'threading.RLock gives mutual exclusion and re-entrancy; threading.Event.wait(t) never times out, whatever t (no timeout may be needed for a wake-up)',
    'fall-back generator only (no poller component registered)',
]
OUTSIDE = ['more than P pre-emptions; randomised schedules (sampling is another technique)', 'pollers (their wake-up goes through a real pipe and select/poll/epoll)',
           'pre-emption inside a single source line']


class ping(Event):
    pass


class Deadlock(Exception):
    pass


class T:
    def __init__(self, name, fn, sched):
        self.name = name
        self.fn = fn
        self.go = threading.Semaphore(0)
        self.state = 'run'        # 'run' | ('lock', l) | ('event', e) | 'done'
        self.thread = threading.Thread(target=self._main, args=(sched,), name=name, daemon=True)
        self.exc = None

    def _main(self, sched):
        self.go.acquire()
        if sched.aborted:
            return
        sys.settrace(sched.tracer)
        try:
            self.fn()
        except BaseException as e:  # noqa
            self.exc = e
        finally:
            sys.settrace(None)
            self.state = 'done'
            sched.back.release()


class Sched:
    def __init__(self, g, traced_codes, max_preempt, bound, max_steps=6000):
        self.g = g
        self.codes = traced_codes
        self.threads = []
        self.current = None
        self.back = threading.Semaphore(0)
        self.steps = 0
        self.max_steps = max_steps
        self.max_preempt = max_preempt
        self.bound = bound
        self.preempts_done = 0
        self.next_preempt = None
        self.pending_k = None
        self.free_run = False
        self.aborted = False
        self.trace = []
        self.livelock = False

    # -- managed-thread side ---------------------------------------------------------------------
    def tracer(self, frame, event, arg):
        code = frame.f_code
        if event == 'call' and code.co_name in self.codes and ('circuits/core/' in code.co_filename or code.co_filename.startswith('<canary')):
            return self.line_tracer
        return None

    def line_tracer(self, frame, event, arg):
        if event == 'line' and not self.free_run:
            self.step(frame)
        return self.line_tracer

    def step(self, frame):
        self.steps += 1
        if self.steps > self.max_steps:
            self.livelock = True
            self.free_run = True
            raise SystemExit('step budget exhausted')
        if self.next_preempt is not None and self.steps >= self.next_preempt:
            others = [t for t in self.threads if t is not self.current and self.runnable(t)]
            if others:
                self.next_preempt = None
                self.pending_k = None
                self.preempts_done += 1
                me = self.current
                target = others[0] if len(others) == 1 else others[self.g.choose('to%d' % self.preempts_done, len(others))]
                self.trace.append((self.steps, me.name, '%s:%d' % (frame.f_code.co_name, frame.f_lineno), '->' + target.name))
                self.want = target
                self.draw_next()
                self._yield()
            # else: nobody to switch to at this point: the pre-emption waits for the next point where somebody is runnable

    def draw_next(self):
        """the next pre-emption happens k traced lines after the running thread got the baton (re-based at every
        context switch, forced or voluntary); k == bound means: no further pre-emption"""
        if self.preempts_done < self.max_preempt:
            k = self.g.choose('k%d' % (self.preempts_done + 1), self.bound + 1)
            self.pending_k = None if k == self.bound else k
        else:
            self.pending_k = None
        self.rebase()

    def rebase(self):
        self.next_preempt = None if self.pending_k is None else self.steps + 1 + self.pending_k

    def _yield(self):
        me = self.current
        self.back.release()
        me.go.acquire()
        if self.aborted:
            raise SystemExit('aborted')

    def block(self, state):
        me = self.current
        me.state = state
        self._yield()
        me.state = 'run'

    # -- scheduler side ----------------------------------------------------------------------------
    def runnable(self, t):
        s = t.state
        if s == 'run':
            return True
        if s == 'done':
            return False
        kind, obj = s
        if kind == 'lock':
            return obj.owner is None
        if kind == 'event':
            return obj.flag
        return False

    def spawn(self, name, fn):
        t = T(name, fn, self)
        self.threads.append(t)
        t.thread.start()
        return t

    def run_until_quiescent(self, quiescent):
        """returns 'quiescent' | 'done' | 'stuck'"""
        self.want = None
        while True:
            if all(t.state == 'done' for t in self.threads):
                return 'done'
            cand = None
            if self.want is not None and self.runnable(self.want):
                cand = self.want
            self.want = None
            if cand is None and self.current is not None and self.runnable(self.current):
                cand = self.current
            if cand is None:
                rs = [t for t in self.threads if self.runnable(t)]
                if not rs:
                    return 'quiescent' if quiescent() else 'stuck'
                cand = rs[0]
            if cand is not self.current:
                self.rebase()
            self.current = cand
            cand.go.release()
            self.back.acquire()

    def abort(self):
        self.aborted = True
        self.free_run = True
        for t in self.threads:
            if t.state != 'done':
                t.go.release()
        for t in self.threads:
            t.thread.join(2)


class SchedRLock:
    sched = None

    def __init__(self):
        self.owner = None
        self.count = 0

    def acquire(self, blocking=True, timeout=-1):
        s = SchedRLock.sched
        me = threading.current_thread()
        if s is None or s.current is None or s.current.thread is not me:
            # harness thread (all managed threads are parked): the lock must be free
            if self.owner is None or self.owner is me:
                self.owner = me
                self.count += 1
                return True
            raise Deadlock('harness thread needs a lock held by %s' % self.owner.name)
        while not (self.owner is None or self.owner is me):
            s.block(('lock', self))
        self.owner = me
        self.count += 1
        return True

    def release(self):
        self.count -= 1
        if self.count == 0:
            self.owner = None

    def __enter__(self):
        self.acquire()
        return self

    def __exit__(self, *a):
        self.release()


class SchedEvent:
    sched = None
    idle = None      # the thread currently blocked in the untimed idle wait

    def __init__(self):
        self.flag = False

    def set(self):
        self.flag = True

    def clear(self):
        self.flag = False

    def is_set(self):
        return self.flag

    def wait(self, timeout=None):
        s = SchedEvent.sched
        if self.flag:
            return True
        # a timed wait blocks as well: the statement is that no timeout has to expire for a fired event to be dispatched
        s.block(('event', self))
        return self.flag


class CtrlPipe:
    """the poller's self-pipe: bytes written and not yet read; a thread blocked in select/poll/epoll waits on it"""

    R, W = 9001, 9002

    def __init__(self):
        self.pending = 0

    @property
    def flag(self):
        return self.pending > 0


class OsDouble:
    """stands in for the `os` module inside circuits.core.pollers: the control pipe lives in CtrlPipe"""

    def __init__(self, ctrl):
        self._ctrl = ctrl

    def pipe(self):
        return (CtrlPipe.R, CtrlPipe.W)

    def write(self, fd, data):
        if fd == CtrlPipe.W:
            self._ctrl.pending += len(data)
            return len(data)
        return os.write(fd, data)

    def read(self, fd, n):
        if fd == CtrlPipe.R:
            if not self._ctrl.pending:
                raise BlockingIOError(11, 'control pipe empty')
            k = min(n, self._ctrl.pending)
            self._ctrl.pending -= k
            return b'\0' * k
        return os.read(fd, n)

    def close(self, fd):
        if fd in (CtrlPipe.R, CtrlPipe.W):
            return None
        return os.close(fd)

    def __getattr__(self, k):
        return getattr(os, k)


class SelectDouble:
    """stands in for the `select` module inside circuits.core.pollers.  Only the control pipe is ever registered in this
    harness; a wait with nothing ready blocks in the scheduler whatever its timeout (a timeout of 0 polls)."""

    def __init__(self, ctrl):
        import select as real
        self._ctrl = ctrl
        for k in dir(real):
            if k.startswith(('POLL', 'EPOLL')):
                setattr(self, k, getattr(real, k))

    def _wait(self, timeout, zero):
        if not self._ctrl.flag and not (timeout is not None and timeout == zero):
            SchedEvent.sched.block(('event', self._ctrl))
        return self._ctrl.flag

    def select(self, r, w, x, timeout=None):
        assert [f for f in list(r) + list(w)] in ([CtrlPipe.R], []), 'only the control pipe is registered in this harness'
        if CtrlPipe.R in r and self._wait(timeout, 0):
            return [CtrlPipe.R], [], []
        return [], [], []

    def poll(self):
        return _PollObject(self, self.POLLIN, KeyError)

    def epoll(self, *a, **k):
        return _PollObject(self, self.EPOLLIN, lambda fd: FileNotFoundError(2, 'No such file or directory'))


class _PollObject:
    def __init__(self, mod, flag_in, missing):
        self.mod = mod
        self.flag_in = flag_in
        self.missing = missing      # what unregister() of an unknown descriptor raises (poll: KeyError, epoll: ENOENT)
        self.table = {}

    def register(self, fd, mask):
        self.table[fd] = mask

    def modify(self, fd, mask):
        self.table[fd] = mask

    def unregister(self, fd):
        if fd not in self.table:
            raise self.missing(fd)
        del self.table[fd]

    def poll(self, timeout=None):
        if CtrlPipe.R in self.table and self.mod._wait(timeout, 0):
            return [(CtrlPipe.R, self.flag_in)]
        return []

    def close(self):
        pass


TRACED = [M.Manager._fire, M.Manager.fireEvent, M.Manager._dispatcher, M.Manager.tick, M.Manager._flush, M._EventQueue.append,
          M._EventQueue.dispatchEvents, EV.generate_events.reduce_time_left, HP.FallBackGenerator._on_generate_events,
          HP.FallBackGenerator.resume]


TRACED_POLLERS = [PL.BasePoller._on_generate_events, PL.BasePoller.resume, PL.BasePoller._read_ctrl,
                  PL.Select._generate_events, PL.Poll._generate_events, PL.Poll._process, PL.EPoll._generate_events, PL.EPoll._process]


class _NoAtexit:
    @staticmethod
    def register(*a, **k):
        return None


def make_harness(n_firers, events_per_firer, max_preempt, bound, timer=False, poller=None):
    # traced by function name (and file), so that a re-compiled variant of a function is traced as well
    codes = {getattr(f, '__func__', f).__code__.co_name for f in TRACED + (TRACED_POLLERS if poller else [])}

    def harness(g):
        saved = (M.RLock, HP.Event, M.atexit, PL.os, PL.select)
        M.RLock = SchedRLock
        HP.Event = SchedEvent
        M.atexit = _NoAtexit
        if poller:
            ctrl = CtrlPipe()
            PL.os = OsDouble(ctrl)
            PL.select = SelectDouble(ctrl)
        sched = Sched(g, codes, max_preempt, bound)
        SchedRLock.sched = sched
        SchedEvent.sched = sched
        try:
            body(g, sched)
        finally:
            sched.abort()
            M.RLock, HP.Event, M.atexit, PL.os, PL.select = saved
            SchedRLock.sched = None
            SchedEvent.sched = None

    def body(g, sched):
        log = []

        class App(BaseComponent):
            @handler('ping')
            def on_ping(self, who, n):
                log.append((who, n))

            if timer:
                # what a Timer does in every idle round: ask to be woken after a finite time
                @handler('generate_events', priority=10)
                def on_generate_events(self, event):
                    event.reduce_time_left(50)

        app = App()
        if poller:
            # the poller's generate_events handler replaces the fall-back idle wait: the loop blocks in select/poll/epoll
            # on the control pipe, and resume() writes to it
            getattr(PL, poller)().register(app)
            app.flush()
        fired = {}

        def loop():
            app.run()

        def firer(i):
            def f():
                for n in range(events_per_firer):
                    fired.setdefault(i, []).append(n)
                    app.fire(ping(i, n))
            return f

        sched.spawn('loop', loop)
        for i in range(n_firers):
            sched.spawn('firer%d' % i, firer(i))
        # which thread starts, and the first pre-emption
        first = g.choose('first', len(sched.threads))
        sched.current = sched.threads[first]
        sched.draw_next()

        def quiescent():
            # everybody who can still act has finished; the loop sits in its idle wait
            loop_t = sched.threads[0]
            firers_done = all(t.state == 'done' for t in sched.threads[1:])
            return firers_done and loop_t.state != 'done' and loop_t.state[0] == 'event' and len(app._queue) == 0

        res = sched.run_until_quiescent(quiescent)
        w = {'preemptions': sched.preempts_done}
        detail = 'schedule=%s; dispatched=%s; threads=%s; queue=%d' % (sched.trace, log, [(t.name, str(t.state)[:40]) for t in sched.threads], len(app._queue))
        g.note({'first': sched.threads[first].name, 'preemptions': sched.trace, 'steps': sched.steps})
        if sched.livelock:
            g.fail('livelock', w, detail)
            raise PathEnd()
        if res == 'stuck':
            loop_t = sched.threads[0]
            if loop_t.state != 'done' and loop_t.state[0] == 'event' and len(app._queue) > 0:
                g.fail('lost-wakeup', w, 'the loop is blocked in its idle wait while %d event(s) are queued and no thread can run; %s' % (len(app._queue), detail))
            else:
                g.fail('deadlock', w, detail)
            raise PathEnd()
        for t in sched.threads:
            if t.exc is not None and not isinstance(t.exc, SystemExit):
                g.fail('thread-raised', w, '%s: %r; %s' % (t.name, t.exc, detail))
                raise PathEnd()
        # everything fired has been dispatched exactly once and in per-thread order
        for i in range(n_firers):
            got = [n for (who, n) in log if who == i]
            if got != fired.get(i, []):
                clause = 'event-lost' if len(got) < len(fired.get(i, [])) else ('event-duplicated' if len(got) > len(fired.get(i, [])) else 'event-reordered')
                g.fail(clause, w, 'firer %d fired %s, dispatched %s; %s' % (i, fired.get(i), got, detail))
                raise PathEnd()
        if res == 'quiescent':
            # end the run through the public API (all managed threads are parked): stop() from this thread wakes the loop
            sched.free_run = True
            try:
                app.stop()
            except Deadlock as e:
                g.fail('deadlock', w, '%s; %s' % (e, detail))
                raise PathEnd()
            res2 = sched.run_until_quiescent(lambda: False)
            if res2 != 'done':
                g.fail('loop-does-not-stop', w, detail)
    return harness


ENC = TRACED


def canaries():
    from harness.common import mutate
    return [
        ('handling-read-outside-lock', 'fallback', lambda: mutate(
            M.Manager, '_fire',
            ["with self._lock:\n            # Modifications", "            handling = self._currently_handling\n\n            self._queue.append(event, channel, priority)"],
            ["handling = self._currently_handling\n        with self._lock:\n            # Modifications", "            self._queue.append(event, channel, priority)"]), ['lost-wakeup']),
        ('no-reduce-on-foreign-fire', 'fallback', lambda: mutate(M.Manager, '_fire', 'handling.reduce_time_left(0)', 'pass'), ['lost-wakeup']),
        ('poller-resume-does-not-write', 'poller-Select', lambda: mutate(PL.BasePoller, 'resume', 'os.write(self._ctrl_send, b\'\\0\')', 'pass'), ['lost-wakeup']),
        ('epoll-ignores-ctrl-pipe', 'poller-EPoll', lambda: mutate(PL.EPoll, '__init__', 'self._updateRegistration(self._ctrl_recv)', 'pass'), None),
        ('batch-moved-with-extend-clear', 'fallback', lambda: mutate(
            M._EventQueue, 'dispatchEvents',
            "self._flush_batch = count = len(self._queue)\n        while count:\n            count -= 1\n            heappush(self._priority_queue, self._queue.popleft())",
            "self._priority_queue.extend(self._queue)\n        self._queue.clear()\n        __import__('heapq').heapify(self._priority_queue)\n        self._flush_batch = len(self._priority_queue)"), ['event-lost']),
    ]


def enc_poller(name):
    base = [f for f in TRACED if 'FallBackGenerator' not in f.__qualname__]
    cls = getattr(PL, name)
    return base + [PL.BasePoller._on_generate_events, PL.BasePoller.resume, PL.BasePoller._read_ctrl, cls._generate_events] + (
        [cls._process] if name != 'Select' else [])


def parts(tier):
    if tier == 'quick':
        return [
            Part('fallback', make_harness(1, 2, 2, 100), bounds={'firing_threads': 1, 'events_per_thread': 2, 'preemptions': 2, 'window_per_preemption': 'within 100 traced lines after a thread got the baton', 'granularity': 'source lines of %d traced functions' % len(TRACED)},
                 encoded=ENC, budget_s=90),
            Part('fallback-with-timer', make_harness(1, 1, 2, 100, timer=True), bounds={'firing_threads': 1, 'events_per_thread': 1, 'preemptions': 2, 'window_per_preemption': 100,
                                                                                    'timer': 'a handler bounds every idle wait to 50 s'},
                 encoded=ENC, budget_s=90),
        ] + [Part('poller-' + name, make_harness(1, 1, 2, 60, poller=name),
                  bounds={'poller': name, 'firing_threads': 1, 'events_per_thread': 1, 'preemptions': 2, 'window_per_preemption': 60,
                          'wake_up': 'through the control pipe (doubles for os.pipe/os.write/os.read and select/poll/epoll inside circuits.core.pollers)'},
                  encoded=enc_poller(name), budget_s=90) for name in ('Select', 'Poll', 'EPoll')]
    return [Part('poller-' + name, make_harness(1, 2, 2, 110, poller=name),
                 bounds={'poller': name, 'firing_threads': 1, 'events_per_thread': 2, 'preemptions': 2, 'window_per_preemption': 110},
                 encoded=enc_poller(name), budget_s=1200) for name in ('Select', 'Poll', 'EPoll')] + [
        Part('fallback-with-timer', make_harness(1, 2, 2, 160, timer=True), bounds={'firing_threads': 1, 'events_per_thread': 2, 'preemptions': 2, 'window_per_preemption': 160,
                                                                                'timer': 'a handler bounds every idle wait to 50 s'}, encoded=ENC, budget_s=1800),
        Part('fallback', make_harness(1, 2, 2, 160), bounds={'firing_threads': 1, 'events_per_thread': 2, 'preemptions': 2, 'window_per_preemption': 160}, encoded=ENC, budget_s=1800),
        Part('fallback-3-preemptions', make_harness(1, 1, 3, 22), bounds={'firing_threads': 1, 'events_per_thread': 1, 'preemptions': 3, 'window_per_preemption': 22}, encoded=ENC, budget_s=2400),
        Part('two-firers', make_harness(2, 1, 2, 70), bounds={'firing_threads': 2, 'events_per_thread': 1, 'preemptions': 2, 'window_per_preemption': 70}, encoded=ENC, budget_s=2400),
    ]


if __name__ == '__main__':
    sys.exit(run_property(sys.modules[__name__]))
