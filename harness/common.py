"""Common runner for all property checks: parallel exploration with pathex, CrossHair kernels,
known findings, replay, evidence, exit codes.  See DESIGN.md section 3."""

import argparse
import hashlib
import json
import multiprocessing as mp
import os
import resource
import signal
import subprocess
import sys
import time
import traceback

VERIF = os.path.dirname(os.path.dirname(os.path.abspath(__file__)))
if VERIF not in sys.path:
    sys.path.insert(0, VERIF)

from pathex import ConcreteCtx, Engine, HarnessError, Item, PathEnd  # noqa: E402

EXIT_OK, EXIT_VIOLATION, EXIT_HARNESS = 0, 1, 3
NPROC = min(16, os.cpu_count() or 4)
KNOWN_FILE = os.path.join(VERIF, 'known_findings.json')
REPLAY_DIR = os.path.join(VERIF, 'out', 'replays')
EVIDENCE_DIR = os.path.join(VERIF, 'evidence')


# ---------------------------------------------------------------------------
# function-entry coverage (vacuity guard): sys.monitoring PY_START on chosen code objects

class Coverage:
    TOOL = 4

    def __init__(self):
        self.codes = {}      # code -> qualified name
        self.counts = {}
        self.active = False

    def watch(self, *funcs):
        for f in funcs:
            f = getattr(f, '__func__', f)
            f = getattr(f, 'fget', f)
            code = f.__code__
            name = '%s.%s' % (f.__module__, f.__qualname__)
            self.codes[code] = name
            self.counts.setdefault(name, 0)
        return self

    def start(self):
        if self.active or not self.codes:
            return
        mon = sys.monitoring
        try:
            mon.use_tool_id(self.TOOL, 'verif-coverage')
        except ValueError:
            pass
        counts, codes = self.counts, self.codes

        def on_start(code, offset):
            counts[codes[code]] += 1

        mon.register_callback(self.TOOL, mon.events.PY_START, on_start)
        for code in self.codes:
            mon.set_local_events(self.TOOL, code, mon.events.PY_START)
        self.active = True

    def snapshot(self):
        return dict(self.counts)

    def reset(self):
        for k in self.counts:
            self.counts[k] = 0


COV = Coverage()


# ---------------------------------------------------------------------------

class Part:
    """One sub-check of a property.

    kind 'pathex': fn(g) is a harness run once per path.
    kind 'crosshair': fn is None; `conditions` is a list of CrossHair condition specs.
    """

    def __init__(self, name, fn=None, bounds=None, kind='pathex', setup=None, encoded=(), max_paths=None,
                 budget_s=None, conditions=None, tiers=('quick', 'thorough'), clauses=(), expect_nontrivial=1,
                 twin_of=None):
        self.name = name
        self.fn = fn
        self.bounds = bounds or {}
        self.kind = kind
        self.setup = setup
        self.encoded = list(encoded)
        self.max_paths = max_paths
        self.budget_s = budget_s
        self.conditions = conditions or []
        self.tiers = tiers
        self.clauses = list(clauses)
        self.expect_nontrivial = expect_nontrivial


_PARTS = {}          # inherited by forked workers
_WORKER_ENGINE = None


def _limit_resources():
    try:
        lim = 6 * 1024 ** 3
        resource.setrlimit(resource.RLIMIT_AS, (lim, lim))
    except Exception:
        pass


def _watchdog(signum, frame):
    sys.stderr.write('\nHARNESS-ERROR worker watchdog expired (a path did not terminate)\n')
    sys.stderr.flush()
    os._exit(97)


_KNOWN = {}


def _triage(part, v, res):
    """worker side: violations matching a known finding are only counted (one example kept); the rest are shipped"""
    v['part'] = part.name
    res['violation_count'] = res.get('violation_count', 0) + 1
    e = match_known(v, _KNOWN.get('list', []))
    if e is not None:
        k = res.setdefault('known', {}).setdefault(e['id'], {'count': 0, 'example': v})
        k['count'] += 1
        return
    if len(res['violations']) < 100:
        res['violations'].append(v)


def _explore_task(part_name, items, max_paths, deadline, task_timeout):
    """runs in a worker process"""
    part = _PARTS[part_name]
    signal.signal(signal.SIGALRM, _watchdog)
    signal.alarm(int(task_timeout))
    try:
        if part.setup:
            part.setup()
        COV.watch(*part.encoded)
        COV.start()
        COV.reset()
        eng = Engine()
        res = {'violations': [], 'samples': [], 'nontrivial': 0, 'ended': 0}

        def on_path(g):
            if not g.feasible:
                return
            for v in g.violations:
                _triage(part, v, res)
            if getattr(g, 'nontrivial', True) and not g.ended:
                res['nontrivial'] += 1
            if g.ended:
                res['ended'] += 1
            if len(res['samples']) < 2 and g.notes:
                res['samples'].append({'choices': [list(c) for c in g.choice_order][:40], 'notes': g.notes[:12]})

        rest = eng.explore(part.fn, items=items, max_paths=max_paths, deadline=deadline, on_path=on_path)
        res['stats'] = eng.stats.as_dict()
        res['errors'] = eng.errors[:5]
        res['rest'] = rest
        res['cov'] = COV.snapshot()
        res['vars'] = dict(eng.seen_vars)
        return res
    except PathEnd:
        raise
    finally:
        signal.alarm(0)


def _worker_main(task_q, result_q):
    _limit_resources()
    try:
        # circuits' fall-back exception handler writes tracebacks to fd 2; keep the check's output readable
        os.makedirs(os.path.join(VERIF, 'out'), exist_ok=True)
        fd = os.open(os.path.join(VERIF, 'out', 'worker-stderr.log'), os.O_WRONLY | os.O_CREAT | os.O_TRUNC, 0o644)
        os.dup2(fd, 2)
    except Exception:
        pass
    while True:
        task = task_q.get()
        if task is None:
            return
        kind, args = task
        try:
            fn = _explore_task_bfs if kind == 'bfs' else _explore_task
            result_q.put(('ok', fn(*args)))
        except BaseException as e:  # noqa
            result_q.put(('err', '%r\n%s' % (e, traceback.format_exc()[-1500:])))


def explore_parallel(part, budget_s, nproc=NPROC, chunk=400, seed=0, stop_on_violation=False):
    """explore a pathex part to closure (or until budget); returns merged result dict"""
    _PARTS[part.name] = part
    _KNOWN['list'] = load_known(_KNOWN.get('pid')) if _KNOWN.get('pid') else []
    t0 = time.time()
    deadline = t0 + budget_s
    merged = {'stats': None, 'violations': [], 'violation_count': 0, 'samples': [], 'nontrivial': 0, 'ended': 0,
              'errors': [], 'cov': {}, 'vars': {}, 'closed': False, 'unexplored_items': 0, 'known': {}}
    from pathex import Stats
    stats = Stats()

    def merge(res):
        stats.add(res['stats'])
        merged['violations'].extend(res['violations'][: max(0, 400 - len(merged['violations']))])
        merged['violation_count'] += res.get('violation_count', 0)
        for kid, k in res.get('known', {}).items():
            mk = merged['known'].setdefault(kid, {'count': 0, 'example': k['example']})
            mk['count'] += k['count']
        if len(merged['samples']) < 6:
            merged['samples'].extend(res['samples'])
        merged['nontrivial'] += res['nontrivial']
        merged['ended'] += res['ended']
        merged['errors'].extend(res['errors'])
        for k, v in res['cov'].items():
            merged['cov'][k] = merged['cov'].get(k, 0) + v
        merged['vars'].update(res['vars'])

    ctx = mp.get_context('fork')
    task_q, result_q = ctx.Queue(), ctx.Queue()
    procs = [ctx.Process(target=_worker_main, args=(task_q, result_q), daemon=True) for _ in range(nproc)]
    for p in procs:
        p.start()
    task_timeout = max(90, budget_s + 90)
    outstanding = 0
    pending_items = []
    max_total = part.max_paths

    def get_result(timeout):
        import queue
        end = time.time() + timeout
        while True:
            try:
                return result_q.get(timeout=2)
            except queue.Empty:
                dead = [p for p in procs if not p.is_alive()]
                if dead:
                    return ('err', 'worker process died (exit codes %s): a path hung or exhausted memory' % [p.exitcode for p in dead])
                if time.time() > end:
                    return ('err', 'no result from workers within %ds' % timeout)

    try:
        task_q.put(('bfs', (part.name, [Item()], 4 * nproc, deadline, task_timeout)))
        outstanding = 1
        while outstanding:
            status, res = get_result(task_timeout + 30)
            outstanding -= 1
            if status == 'err':
                merged['errors'].append(res)
                break
            merge(res)
            pending_items.extend(res['rest'])
            if merged['errors']:
                break
            if stop_on_violation and merged['violations']:
                break
            if time.time() > deadline or (max_total and stats.paths >= max_total):
                # drain what is in flight, hand out nothing new
                if not outstanding:
                    break
                continue
            if seed and pending_items:
                import random
                random.Random(seed + outstanding).shuffle(pending_items)
            while pending_items and outstanding < 2 * nproc:
                take = max(1, min(len(pending_items) // (2 * nproc) + 1, 8))
                batch, pending_items = pending_items[-take:], pending_items[:-take]
                task_q.put(('dfs', (part.name, batch, chunk, deadline, task_timeout)))
                outstanding += 1
    finally:
        for p in procs:
            try:
                p.terminate()
            except Exception:
                pass
        for p in procs:
            p.join(2)
            if p.is_alive():
                p.kill()
        task_q.cancel_join_thread()
        result_q.cancel_join_thread()
    merged['unexplored_items'] = len(pending_items) + outstanding
    merged['closed'] = (merged['unexplored_items'] == 0 and not merged['errors'])
    merged['stats'] = stats.as_dict()
    merged['wall_s'] = round(time.time() - t0, 2)
    return merged


def _explore_task_bfs(part_name, items, want, deadline, task_timeout):
    part = _PARTS[part_name]
    signal.signal(signal.SIGALRM, _watchdog)
    signal.alarm(int(task_timeout))
    try:
        if part.setup:
            part.setup()
        COV.watch(*part.encoded)
        COV.start()
        COV.reset()
        eng = Engine()
        res = {'violations': [], 'samples': [], 'nontrivial': 0, 'ended': 0, 'violation_count': 0}

        def on_path(g):
            if not g.feasible:
                return
            for v in g.violations:
                _triage(part, v, res)
            if g.ended:
                res['ended'] += 1
            elif getattr(g, 'nontrivial', True):
                res['nontrivial'] += 1
            if len(res['samples']) < 2 and g.notes:
                res['samples'].append({'choices': [list(c) for c in g.choice_order][:40], 'notes': g.notes[:12]})

        rest = eng.explore(part.fn, items=items, deadline=deadline, on_path=on_path, bfs=True,
                           stop_when=lambda: len(eng.work) >= want)
        res['stats'] = eng.stats.as_dict()
        res['errors'] = eng.errors[:5]
        res['rest'] = rest
        res['cov'] = COV.snapshot()
        res['vars'] = dict(eng.seen_vars)
        return res
    finally:
        signal.alarm(0)


def explore_serial(part, budget_s=600, max_paths=None, stop_on_violation=False):
    """single-process exploration (used by canaries, replays of small parts and debugging)"""
    if part.setup:
        part.setup()
    eng = Engine()
    out = {'violations': [], 'paths': 0, 'nontrivial': 0}

    def on_path(g):
        out['violations'].extend(g.violations)
        if g.feasible and not g.ended:
            out['nontrivial'] += 1

    rest = eng.explore(part.fn, deadline=time.time() + budget_s, max_paths=max_paths, on_path=on_path,
                       stop_when=(lambda: bool(out['violations'])) if stop_on_violation else None)
    out['stats'] = eng.stats.as_dict()
    out['errors'] = eng.errors
    out['closed'] = not rest and not eng.errors
    return out


# ---------------------------------------------------------------------------
# canaries: in-memory source mutations of the code under test (never touches /repo)

def mutate(owner, fname, old, new, count=1, accessor='fget'):
    """re-compile owner.fname with `old` replaced by `new` in its source; returns an undo callable"""
    import inspect
    import textwrap
    orig = owner.__dict__[fname] if isinstance(owner, type) else getattr(owner, fname)
    target = orig
    wrap = None
    if isinstance(orig, property):
        target, wrap = getattr(orig, accessor), 'property'
    elif isinstance(orig, (staticmethod, classmethod)):
        target, wrap = orig.__func__, type(orig)
    src = textwrap.dedent(inspect.getsource(target))
    pairs = list(zip(old, new)) if isinstance(old, (list, tuple)) else [(old, new)]
    src2 = src
    for o, n in pairs:
        if src2.count(o) < 1:
            raise HarnessError('canary: %r not found in %s.%s' % (o, getattr(owner, '__name__', owner), fname))
        src2 = src2.replace(o, n, count)
    if isinstance(owner, type):
        # private name mangling (self.__x) is done by the compiler only inside a class body: do it textually
        import re
        src2 = re.sub(r'\.__([A-Za-z]\w*?)(?<!__)\b', lambda m: '._%s__%s' % (owner.__name__.lstrip('_'), m.group(1)), src2)
    mod = sys.modules[target.__module__]
    # default arguments may refer to names of the class body (e.g. `channel=channel`)
    ns = {k: v for k, v in vars(owner).items() if not k.startswith('__')} if isinstance(owner, type) else {}
    ns.pop(target.__name__, None)
    glb = dict(mod.__dict__)
    if isinstance(owner, type):
        glb['__class__'] = owner
    # functions using zero-arg super() need the class cell: wrap in a class-like closure
    if 'super()' in src2 and isinstance(owner, type):
        simple = {k: v for k, v in vars(owner).items() if not k.startswith('__') and not callable(v) and k.isidentifier()
                  and not isinstance(v, (property, staticmethod, classmethod))}
        pre = ''.join('    %s = __ns[%r]\n' % (k, k) for k in simple)
        wrapper_src = 'def __mk(__class__, __ns):\n' + pre + textwrap.indent(src2, '    ') + '\n    return %s\n' % target.__name__
        exec(compile(wrapper_src, '<canary %s>' % fname, 'exec'), mod.__dict__, ns)
        newf = ns['__mk'](owner, simple)
    else:
        exec(compile(src2, '<canary %s>' % fname, 'exec'), mod.__dict__, ns)
        newf = ns[target.__name__]
    for k, v in getattr(target, '__dict__', {}).items():
        if not hasattr(newf, k):
            setattr(newf, k, v)
    if wrap == 'property':
        newobj = property(newf, orig.fset, orig.fdel) if accessor == 'fget' else property(orig.fget, newf, orig.fdel)
    elif wrap is not None:
        newobj = wrap(newf)
    else:
        newobj = newf
    setattr(owner, fname, newobj)
    # `from module import function` bindings elsewhere in circuits must see the variant as well
    rebound = []
    if not isinstance(owner, type):
        for m in list(sys.modules.values()):
            if m is not owner and getattr(m, '__name__', '').startswith('circuits') and m.__dict__.get(fname) is orig:
                setattr(m, fname, newobj)
                rebound.append(m)

    def undo():
        setattr(owner, fname, orig)
        for m in rebound:
            setattr(m, fname, orig)
    return undo


def run_canaries(mod, tier='quick', budget=60):
    """each canary = (name, part name, apply() -> undo, expected clauses).  The check must catch it."""
    out = []
    parts = {p.name: p for p in mod.parts(tier)}
    for name, part_name, apply, expected in mod.canaries():
        part = parts.get(part_name)
        if part is None:
            continue
        undo = apply()
        try:
            if part.kind == 'crosshair':
                from harness import xh
                rep = xh.run_part(mod.PROPERTY, part, tier, budget, stop_on_violation=True)
                viol = rep.get('_violations', [])
            else:
                res = explore_parallel(part, budget)
                viol = res['violations']
            clauses = sorted({v['clause'] for v in viol})
            caught = any(c in expected for c in clauses) if expected else bool(clauses)
            errs = (res.get('errors') if part.kind != 'crosshair' else rep.get('errors')) or []
            out.append({'canary': name, 'part': part_name, 'caught': caught, 'clauses': clauses[:6], 'errors': [str(e)[:200] for e in errs[:2]]})
        finally:
            undo()
    return out


# ---------------------------------------------------------------------------
# known findings

def load_known(pid):
    try:
        data = json.load(open(KNOWN_FILE))
    except FileNotFoundError:
        return []
    return [e for e in data.get('findings', []) if e.get('property') == pid]


def match_known(v, known):
    for e in known:
        if e.get('status') != 'known':
            continue
        if e.get('clause') != v['clause']:
            continue
        if e.get('part') and e['part'] != v.get('part'):
            continue
        ok = True
        for k, want in (e.get('match') or {}).items():
            have = v['witness'].get(k)
            if isinstance(want, list):
                if have not in want:
                    ok = False
            elif have != want:
                ok = False
        if ok:
            return e
    return None


def vkey(v):
    return json.dumps([v.get('part'), v['clause'], v['witness']], sort_keys=True, default=str)


# ---------------------------------------------------------------------------
# replay

def replay_violation(part, v):
    """re-run the harness body concretely with the solver's values; True iff the same clause fails again"""
    if part.setup:
        part.setup()
    g = ConcreteCtx(v.get('values', {}), v.get('choices', {}))
    try:
        part.fn(g)
    except PathEnd:
        pass
    for w in g.violations:
        if w['clause'] == v['clause']:
            return True, g
    return False, g


def _replay_in_child(part, v, q):
    try:
        ok, g = replay_violation(part, v)
        q.put((ok, [w['clause'] for w in g.violations], g.missing[:5]))
    except BaseException as e:  # noqa
        q.put((False, ['exception in replay: %r' % (e,)], traceback.format_exc()[-800:]))


def replay_isolated(part, v, timeout=120, attempts=4):
    """concrete replay in a child process; circuits iterates over sets of tasks/handlers in address order, so a
    schedule-dependent counterexample is given a few attempts (fresh process each) before it counts as not reproduced"""
    res = (False, ['no attempt'], [])
    for _ in range(attempts):
        res = _replay_once(part, v, timeout)
        if res[0]:
            return res
    return res


def _replay_once(part, v, timeout=120):
    ctx = mp.get_context('fork')
    q = ctx.Queue()
    p = ctx.Process(target=_replay_in_child, args=(part, v, q))
    p.start()
    try:
        res = q.get(timeout=timeout)
    except Exception:
        res = (False, ['replay timed out'], [])
    p.join(5)
    if p.is_alive():
        p.kill()
    return res


def write_replay(pid, part, v):
    os.makedirs(REPLAY_DIR, exist_ok=True)
    body = {'property': pid, 'part': part.name, 'clause': v['clause'], 'witness': v['witness'],
            'detail': v.get('detail'), 'formula': v.get('formula'), 'values': v.get('values', {}),
            'choices': v.get('choices', {}), 'choice_order': v.get('choice_order'), 'bounds': part.bounds,
            'repo': repo_id(), 'crosshair_call': v.get('crosshair_call'), 'crosshair_module': v.get('crosshair_module')}
    h = hashlib.sha1(json.dumps(body, sort_keys=True, default=str).encode()).hexdigest()[:10]
    path = os.path.join(REPLAY_DIR, '%s-%s.json' % (pid, h))
    json.dump(body, open(path, 'w'), indent=1, default=str)
    return path


def repo_id():
    try:
        h = subprocess.run(['git', '-C', '/repo', 'rev-parse', '--short', 'HEAD'], capture_output=True, text=True).stdout.strip()
        d = subprocess.run(['git', '-C', '/repo', 'status', '--porcelain', '--untracked-files=no'], capture_output=True, text=True).stdout
        return h + ('+dirty:' + hashlib.sha1(d.encode()).hexdigest()[:6] if d.strip() else '')
    except Exception:
        return 'unknown'


# ---------------------------------------------------------------------------
# main driver

def run_property(mod, argv=None):
    """mod provides: PROPERTY, parts(tier) -> [Part], ASSUMPTIONS, OUTSIDE, optional canaries() and
    EXPLANATION.  Returns the process exit code."""
    ap = argparse.ArgumentParser()
    ap.add_argument('--tier', default=os.environ.get('VERIF_TIER', 'quick'), choices=['quick', 'thorough'])
    ap.add_argument('--replay')
    ap.add_argument('--part')
    ap.add_argument('--canaries', action='store_true', help='run the in-memory mutation canaries only')
    ap.add_argument('--budget', type=float)
    args = ap.parse_args(argv)
    pid = mod.PROPERTY
    seed = int(os.environ.get('VERIF_SEED', '0') or 0)
    tier = args.tier
    t0 = time.time()
    parts = [p for p in mod.parts(tier) if tier in p.tiers]
    if args.part:
        parts = [p for p in parts if p.name == args.part]

    _KNOWN['pid'] = pid
    if args.canaries:
        res = run_canaries(mod, tier)
        bad = [r for r in res if not r['caught']]
        for r in res:
            print('canary %-40s part=%-24s caught=%s clauses=%s %s' % (r['canary'], r['part'], r['caught'], r['clauses'], ('errors=%s' % r['errors']) if r.get('errors') else ''))
        return EXIT_HARNESS if bad else EXIT_OK

    if args.replay:
        body = json.load(open(args.replay))
        part = [p for p in mod.parts('thorough') if p.name == body['part']][0]
        if part.kind == 'crosshair':
            from harness import xh
            ok, info = xh.replay(body)
        else:
            ok, clauses, missing = replay_isolated(part, body)
            info = clauses
        print('replay of %s: %s (%s)' % (args.replay, 'REPRODUCED' if ok else 'not reproduced', info))
        if ok:
            print('VIOLATION property=%s replay=%s' % (pid, args.replay))
            return EXIT_VIOLATION
        return EXIT_OK

    known = load_known(pid)
    _KNOWN['pid'] = pid
    harness_errors = []
    all_new = []
    known_hits = {}
    part_reports = []
    total = {'paths': 0, 'queries': 0, 'solver_s': 0.0, 'nontrivial': 0, 'asserts': 0, 'discharged': 0}
    samples = []
    functions = {}
    vars_kind = {}
    closed_all = True
    inconclusive_conditions = []

    for part in parts:
        budget = args.budget or part.budget_s or (75 if tier == 'quick' else 600)
        if tier == 'quick' and not args.budget:
            # the per-part budget is a cap, not a target: quick parts normally close in 1-40 s on 16 idle cores; a loaded
            # or slower machine must not turn a closing exploration into an INCONCLUSIVE
            budget = max(budget, 600)
        if part.kind == 'crosshair':
            from harness import xh
            rep = xh.run_part(pid, part, tier, budget)
        else:
            res = explore_parallel(part, budget, seed=seed)
            rep = {
                'part': part.name, 'engine': 'pathex', 'bounds': part.bounds, 'closed': res['closed'],
                'paths': res['stats']['paths'], 'paths_ended_by_assumption': res['ended'],
                'nontrivial_paths': res['nontrivial'], 'stats': res['stats'], 'wall_s': res['wall_s'],
                'unexplored_items': res['unexplored_items'], 'violations': res['violation_count'],
                'functions_entered': res['cov'], 'samples': res['samples'][:3], 'errors': res['errors'][:3],
                'clauses': part.clauses,
            }
            rep['_violations'] = res['violations']
            rep['_known'] = res['known']
            for k, v in res['vars'].items():
                vars_kind[k] = v
            if res['errors']:
                harness_errors.append('%s: %s' % (part.name, res['errors'][0]))
            if not res['closed'] and not res['errors']:
                closed_all = False
            missing = [f for f, n in res['cov'].items() if n == 0]
            if missing and not res['errors']:
                harness_errors.append('%s: vacuity: required functions never entered: %s' % (part.name, missing))
            if res['nontrivial'] < part.expect_nontrivial:
                harness_errors.append('%s: vacuity: only %d non-trivial paths' % (part.name, res['nontrivial']))
        part_reports.append(rep)
        print('  part %-28s %-9s closed=%-5s paths=%-8s nontrivial=%-8s viol=%-4s wall=%.1fs' % (
            part.name, rep.get('engine'), rep.get('closed'), rep.get('paths'), rep.get('nontrivial_paths'),
            rep.get('violations'), rep.get('wall_s', 0)))
        sys.stdout.flush()
        total['paths'] += rep.get('paths', 0)
        total['nontrivial'] += rep.get('nontrivial_paths', 0)
        st = rep.get('stats', {})
        total['queries'] += st.get('queries', 0)
        total['solver_s'] += st.get('solver_s', 0.0)
        total['asserts'] += st.get('asserts', 0)
        total['discharged'] += st.get('asserts_discharged', 0)
        for f, n in rep.get('functions_entered', {}).items():
            functions[f] = functions.get(f, 0) + n
        samples.extend(rep.get('samples', [])[:2])
        if rep.get('errors'):
            for e in rep['errors']:
                if ('%s: %s' % (part.name, e)) not in harness_errors and part.kind == 'crosshair':
                    harness_errors.append('%s: %s' % (part.name, e))
        if not rep.get('closed', True):
            if rep.get('inconclusive_is_not_failure') and not rep.get('errors'):
                # CrossHair conditions that ran out of budget: not discharged, listed in the evidence, not an alarm
                for c in rep.get('conditions_inconclusive', []):
                    print('    INCONCLUSIVE-CONDITION %s %s' % (part.name, c))
                inconclusive_conditions.extend('%s: %s' % (part.name, c) for c in rep.get('conditions_inconclusive', []))
            else:
                closed_all = False

        # triage violations of this part
        cc = {}
        for v in rep.get('_violations', []):
            cc[v['clause']] = cc.get(v['clause'], 0) + 1
        if cc:
            print('    violated clauses (recorded): %s' % cc)
            rep['violated_clauses'] = cc
        seen = set()
        kn_by_id = {e['id']: e for e in known}
        for kid, k in rep.pop('_known', {}).items():
            hit = known_hits.setdefault(kid, {'entry': kn_by_id[kid], 'count': 0, 'example': k['example'], 'part': part})
            hit['count'] += k['count']
        for v in rep.pop('_violations', []):
            v['part'] = part.name
            k = vkey(v)
            e = match_known(v, known)
            if e is not None:
                hit = known_hits.setdefault(e['id'], {'entry': e, 'count': 0, 'example': v, 'part': part})
                hit['count'] += 1
                continue
            if k in seen:
                continue
            seen.add(k)
            all_new.append((part, v))

    # replay: new violations (at most 5 distinct) and one example per known finding
    confirmed = []
    for part, v in all_new[:5]:
        path = write_replay(pid, part, v)
        if part.kind == 'crosshair':
            from harness import xh
            ok, info = xh.replay(json.load(open(path)))
        else:
            ok, info, _ = replay_isolated(part, v)
        if ok:
            confirmed.append((part, v, path))
        else:
            harness_errors.append('%s: counterexample for clause %r did not reproduce in concrete replay (%s): harness/encoding bug, see %s'
                                  % (part.name, v['clause'], info, path))
    for kid, hit in known_hits.items():
        part, v = hit['part'], hit['example']
        if part.kind == 'crosshair':
            from harness import xh
            ok, info = xh.replay({'crosshair_call': v.get('crosshair_call'), 'crosshair_module': v.get('crosshair_module'), 'part': part.name, 'clause': v['clause']})
        else:
            ok, info, _ = replay_isolated(part, v)
        hit['reproduced'] = ok
        if not ok:
            harness_errors.append('known finding %s did not reproduce concretely (%s)' % (kid, info))

    wall = round(time.time() - t0, 2)
    for p in part_reports:
        p.pop('_violations', None)
        p.pop('_known', None)
    n_data = sum(1 for k in vars_kind.values() if k == 'data')
    n_choice = sum(1 for k in vars_kind.values() if k == 'choice')
    evidence = {
        'property_id': pid,
        'tier': tier,
        'seed': seed,
        'level': 'other',
        'coverage': {
            'explanation': getattr(mod, 'EXPLANATION', '') + (
                ' Bounded symbolic execution of the real circuits code from /repo (%s): every path of the harness '
                'within the stated bounds was executed with its assertions discharged by z3 (pathex) or CrossHair; '
                'a pass says nothing outside the bounds.' % repo_id()),
            'evaluations': total['paths'],
            'distinct_nontrivial': total['nontrivial'],
            'rule': 'one evaluation = one execution of the harness on the real code under one path condition (a disjoint class of '
                    'inputs/histories); non-trivial = the path was not cut by a harness assumption and reached its assertions; '
                    'CrossHair parts count one evaluation per condition.',
            'samples': samples[:8] or [{'note': 'no sample recorded'}],
            'exhaustive': bool(closed_all and not harness_errors and not inconclusive_conditions),
            'crosshair_conditions_not_discharged': inconclusive_conditions,
            'tree_closed': bool(closed_all),
            'solver_queries': total['queries'],
            'solver_seconds': round(total['solver_s'], 2),
            'assertions': total['asserts'],
            'assertions_discharged': total['discharged'],
            'symbolic_variables': {'data': n_data, 'choice': n_choice},
            'functions_encoded': functions,
            'parts': part_reports,
            'outside_the_claim': getattr(mod, 'OUTSIDE', []),
            'known_findings_seen': {k: {'paths': h['count'], 'reproduced': h.get('reproduced')} for k, h in known_hits.items()},
            'harness_errors': harness_errors,
        },
        'assumptions': getattr(mod, 'ASSUMPTIONS', []),
        'wall_s': wall,
        'violations': len(confirmed),
    }
    if args.part or os.environ.get('VERIF_REPO') or os.environ.get('VERIF_SCRATCH'):
        # a run restricted to one part (or against a scratch copy of /repo) is a development aid: it must not replace the evidence of the whole check
        edir = os.path.join(VERIF, 'out', 'evidence-partial')
        os.makedirs(edir, exist_ok=True)
        json.dump(evidence, open(os.path.join(edir, '%s.json' % pid), 'w'), indent=1, default=str)
    else:
        os.makedirs(EVIDENCE_DIR, exist_ok=True)
        json.dump(evidence, open(os.path.join(EVIDENCE_DIR, '%s.json' % pid), 'w'), indent=1, default=str)
        if tier == 'thorough':
            # kept next to the per-change (quick) evidence, which the next quick run rewrites
            os.makedirs(os.path.join(EVIDENCE_DIR, 'thorough'), exist_ok=True)
            json.dump(evidence, open(os.path.join(EVIDENCE_DIR, 'thorough', '%s.json' % pid), 'w'), indent=1, default=str)

    for kid, hit in known_hits.items():
        print('KNOWN-FINDING: property=%s %s [%s; %d paths]' % (pid, hit['entry']['what'], kid, hit['count']))
    for part, v, path in confirmed:
        print('violated clause %r in part %s: witness=%s detail=%s' % (v['clause'], part.name, v['witness'], str(v.get('detail'))[:600]))
        print('VIOLATION property=%s replay=%s' % (pid, path))
    print('%s %s: parts=%d paths=%d nontrivial=%d queries=%d solver=%.1fs closed=%s wall=%.1fs new_violations=%d known=%d'
          % (pid, tier, len(parts), total['paths'], total['nontrivial'], total['queries'], total['solver_s'], closed_all,
             wall, len(confirmed), len(known_hits)))
    if harness_errors:
        for e in harness_errors:
            print('HARNESS-ERROR %s' % e)
        if not confirmed:
            return EXIT_HARNESS
    if confirmed:
        return EXIT_VIOLATION
    if not closed_all:
        print('INCONCLUSIVE %s: exploration did not close within its budget; bounds must be lowered' % pid)
        return EXIT_HARNESS
    return EXIT_OK
