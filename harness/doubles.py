"""Environment doubles installed through module globals (DESIGN.md 3.1).  /repo is never edited for these."""

import threading


class Abort(BaseException):
    """escape hatch out of an otherwise endless idle loop; the violation is latched before it is raised"""


class VirtualClock:
    """time() double.  `now` is a symbolic (or concrete, in replay) real; it advances only through advance()."""

    def __init__(self, g, start=0):
        self.g = g
        self.now = start
        self.readings = []
        self.n = 0

    def time(self):
        self.readings.append(self.now)
        return self.now

    def advance(self, name=None, at_most=None):
        """advance by a fresh delta >= 0 (optionally <= at_most); returns the delta"""
        self.n += 1
        d = self.g.real(name or 'dt%d' % self.n, 0, at_most)
        self.now = self.now + d
        return d


class EventDouble:
    """threading.Event double for circuits.core.helpers: wait(t) returns after a symbolic 0 <= d <= t.
    An unbounded wait (the fall-back's wait(10000) loop while time_left < 0) is recorded and escaped."""

    current = None   # the per-path controller: object with .on_wait(timeout) -> None

    def __init__(self):
        self.flag = False

    def set(self):
        self.flag = True

    def clear(self):
        self.flag = False

    def is_set(self):
        return self.flag

    def wait(self, timeout=None):
        ctl = EventDouble.current
        if ctl is not None:
            ctl.on_wait(timeout)
        return self.flag


class IdleController:
    """what the harness needs to know about idle waits"""

    def __init__(self, g, clock):
        self.g = g
        self.clock = clock
        self.waits = []          # (timeout, clock at entry)
        self.unbounded = 0
        self.n = 0

    def on_wait(self, timeout):
        if timeout is None or (type(timeout) is int and timeout == 10000):
            # the `while time_left < 0: wait(10000)` loop: only another thread could end it
            self.unbounded += 1
            self.waits.append(('unbounded', self.clock.now))
            raise Abort()
        self.n += 1
        self.waits.append((timeout, self.clock.now))
        d = self.g.real('w%d' % self.n, 0, timeout)
        self.clock.now = self.clock.now + d


_installed = {}


def install_clock(clock):
    import circuits.core.manager as M
    import circuits.core.timers as T
    if 'time' not in _installed:
        _installed['time'] = (M.time, T.time)
    M.time = clock.time
    T.time = clock.time


def install_event_double(controller):
    import circuits.core.helpers as Hp
    if 'Event' not in _installed:
        _installed['Event'] = Hp.Event
    Hp.Event = EventDouble
    EventDouble.current = controller


def uninstall_all():
    import circuits.core.helpers as Hp
    import circuits.core.manager as M
    import circuits.core.timers as T
    if 'time' in _installed:
        M.time, T.time = _installed.pop('time')
    if 'Event' in _installed:
        Hp.Event = _installed.pop('Event')
    EventDouble.current = None


def mark_running(manager):
    """what run() does before its loop, without the loop"""
    manager._running = True
    manager.root._executing_thread = threading.current_thread()


def unmark_running(manager):
    manager._running = False
    manager.root._executing_thread = None
