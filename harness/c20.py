"""C20 -- authentication, session binding and gateway trust are sound.

Real code: tools.check_auth/basic_auth/digest_auth, _httpauth.parseAuthorization/_parseBasicAuthorization/
_parseDigestAuthorization/checkResponse/_checkBasicResponse/_checkDigestResponse/_A1/_A2/_computeDigestResponse,
sessions.who/create_session/verify_session/Sessions.request/MemoryStore, VirtualHosts.__init__/_on_request.
Choices: user table, scheme, Authorization header from a grammar (correct responses are computed by an independent
RFC 2617 routine in this file), request pairs differing in cookie / address / user agent, gateway configuration.
CrossHair: the credential check on a symbolic Authorization string against an empty user table.
"""

import base64
import hashlib
import os
import sys

sys.path.insert(0, os.path.dirname(os.path.dirname(os.path.abspath(__file__))))

from circuits.core.components import BaseComponent  # noqa: E402
from circuits.core.handlers import handler  # noqa: E402
from circuits.web import _httpauth as HA  # noqa: E402
from circuits.web import sessions as SS  # noqa: E402
from circuits.web import tools as WT  # noqa: E402
from circuits.web.dispatchers import virtualhosts as VH  # noqa: E402

from harness.common import Part, run_property  # noqa: E402
from harness.httpkit import Rig, WebSock, parse_responses  # noqa: E402
from pathex import PathEnd  # noqa: E402

PROPERTY = 'C20'
EXPLANATION = ('C20: (auth) the documented idiom `if check_auth(...): protected; else basic_auth/digest_auth(...)` is run behind the '
               'real HTTP component for every Authorization header of a grammar over both schemes; "the protected result is '
               'served" must be equivalent to "the header verifies against a table entry for the configured realm" where correct '
               'Digest responses come from an independent RFC 2617 routine; (sessions) pairs of requests differing in cookie, '
               'address, user agent; (virtual hosts) trusted-gateway configuration x remote address x X-Forwarded-Host.')
ASSUMPTIONS = ['Basic tables hold clear-text passwords with encrypt=str (as the test-suite does); Digest tables hold clear-text passwords',
               'an exception raised by the credential check counts as refusal (it ends in an error response)',
               'trusted_gateways=None (not configured) is not judged: the statement speaks about configured gateways']
OUTSIDE = ['hash strength, nonce freshness / replay', 'MD5-sess and auth-int beyond "is refused or verifies correctly"', 'session stores other than MemoryStore']

REALM = 'Test'
SECRET = 'TOP-SECRET-RESULT'


def md5(s):
    return hashlib.md5(s.encode()).hexdigest()


def rfc2617_response(user, realm, password, method, uri, nonce, qop=None, nc=None, cnonce=None):
    ha1 = md5('%s:%s:%s' % (user, realm, password))
    ha2 = md5('%s:%s' % (method, uri))
    if qop:
        return md5('%s:%s:%s:%s:%s:%s' % (ha1, nonce, nc, cnonce, qop, ha2))
    return md5('%s:%s:%s' % (ha1, nonce, ha2))


def digest_header(user, realm, response, uri='/p', nonce='abc123', qop=None, nc='00000001', cnonce='xyz', drop=None, extra=''):
    fields = [('username', user), ('realm', realm), ('nonce', nonce), ('uri', uri), ('response', response)]
    if qop:
        fields += [('qop', qop), ('nc', nc), ('cnonce', cnonce)]
    out = ', '.join('%s="%s"' % (k, v) for k, v in fields if k != drop)
    return 'Digest ' + out + extra


def basic_header(user, password):
    return 'Basic ' + base64.b64encode(('%s:%s' % (user, password)).encode()).decode()


def header_grammar(method):
    """(label, header, verifies(table) -> bool)"""
    G = []

    def ok_user(u, p):
        return lambda table: table.get(u) == p
    never = lambda table: False  # noqa: E731
    # Basic
    G.append(('basic-right', basic_header('admin', 'pw'), ok_user('admin', 'pw')))
    G.append(('basic-wrong-password', basic_header('admin', 'nope'), ok_user('admin', 'nope')))
    G.append(('basic-unknown-user', basic_header('mallory', 'pw'), ok_user('mallory', 'pw')))
    G.append(('basic-unknown-user-password-None', basic_header('mallory', 'None'), ok_user('mallory', 'None')))
    G.append(('basic-empty-password', basic_header('admin', ''), ok_user('admin', '')))
    G.append(('basic-bad-base64', 'Basic !!!notbase64', never))
    G.append(('basic-no-colon', 'Basic ' + base64.b64encode(b'adminpw').decode(), never))
    G.append(('basic-empty', 'Basic ', never))
    # Digest
    for qop in (None, 'auth'):
        tag = 'qop-' + str(qop)
        G.append(('digest-right-' + tag, digest_header('admin', REALM, rfc2617_response('admin', REALM, 'pw', method, '/p', 'abc123', qop, '00000001', 'xyz'), qop=qop), ok_user('admin', 'pw')))
        G.append(('digest-wrong-password-' + tag, digest_header('admin', REALM, rfc2617_response('admin', REALM, 'nope', method, '/p', 'abc123', qop, '00000001', 'xyz'), qop=qop), ok_user('admin', 'nope')))
        G.append(('digest-unknown-user-None-' + tag, digest_header('mallory', REALM, rfc2617_response('mallory', REALM, 'None', method, '/p', 'abc123', qop, '00000001', 'xyz'), qop=qop), ok_user('mallory', 'None')))
    G.append(('digest-wrong-realm', digest_header('admin', 'Other', rfc2617_response('admin', 'Other', 'pw', method, '/p', 'abc123')), never))
    G.append(('digest-garbage-response', digest_header('admin', REALM, 'deadbeef'), never))
    G.append(('digest-empty-response', digest_header('admin', REALM, ''), never))
    G.append(('digest-wrong-method', digest_header('admin', REALM, rfc2617_response('admin', REALM, 'pw', 'DELETE', '/p', 'abc123')), never))
    for drop in ('username', 'realm', 'nonce', 'uri', 'response'):
        G.append(('digest-missing-' + drop, digest_header('admin', REALM, rfc2617_response('admin', REALM, 'pw', method, '/p', 'abc123'), drop=drop), never))
    G.append(('digest-qop-without-cnonce', digest_header('admin', REALM, 'x') + ', qop="auth"', never))
    G.append(('digest-cnonce-without-qop', digest_header('admin', REALM, rfc2617_response('admin', REALM, 'pw', method, '/p', 'abc123')) + ', cnonce="c"', never))
    G.append(('digest-qop-unknown', digest_header('admin', REALM, 'x', qop='foo'), never))
    G.append(('digest-qop-auth-int', digest_header('admin', REALM, 'x', qop='auth-int'), never))
    # other
    G.append(('scheme-without-space', 'Basic', never))
    G.append(('unknown-scheme', 'Bearer abcdef', never))
    G.append(('empty', '', never))
    G.append(('negotiate', 'Negotiate ' + 'A' * 40, never))
    return G


OUTER = {'admin': 'pw', 'bob': 'hunter2', 'mallory': 'pw'}
TABLES = [('empty', {}), ('one', {'admin': 'pw'}), ('two', {'admin': 'pw', 'bob': 'hunter2'}), ('none-literal', {'admin': 'pw', 'eve': 'None'})]


def make_auth_harness():
    def harness(g):
        method = g.pick('method', ['GET', 'POST'])
        scheme = g.pick('scheme', ['basic', 'digest'])
        tname, table = g.pick('table', TABLES)
        label, header, verifies = g.pick('header', header_grammar(method))
        idiom = g.pick('idiom', ['check_auth-then-helper', 'helper-only', 'nested-areas'])
        seen = {}

        class App(BaseComponent):
            channel = 'web'

            @handler('request', priority=0.5)
            def _on_request(self, event, req, res, *a):
                users = dict(table)
                try:
                    if idiom == 'nested-areas':
                        # a site-wide login around a stricter area: the same request is checked twice, against
                        # different user tables; each check has to verify on its own
                        enc = (str,) if scheme == 'basic' else ()
                        if not WT.check_auth(req, res, REALM, dict(OUTER), *enc):
                            return WT.basic_auth(req, res, REALM, dict(OUTER), str) if scheme == 'basic' else WT.digest_auth(req, res, REALM, dict(OUTER))
                        ok = WT.check_auth(req, res, REALM, users, *enc)
                        seen['login'] = req.login if ok else None
                        if ok:
                            seen['granted'] = True
                            return SECRET
                        return WT.basic_auth(req, res, REALM, users, str) if scheme == 'basic' else WT.digest_auth(req, res, REALM, users)
                    if idiom == 'check_auth-then-helper':
                        ok = WT.check_auth(req, res, REALM, users, str) if scheme == 'basic' else WT.check_auth(req, res, REALM, users)
                        seen['login'] = req.login
                        if ok:
                            seen['granted'] = True
                            return SECRET
                        return WT.basic_auth(req, res, REALM, users, str) if scheme == 'basic' else WT.digest_auth(req, res, REALM, users)
                    r = WT.basic_auth(req, res, REALM, users, str) if scheme == 'basic' else WT.digest_auth(req, res, REALM, users)
                    seen['login'] = req.login
                    if r is None:
                        seen['granted'] = True
                        return SECRET
                    return r
                finally:
                    seen.setdefault('login', req.login)

        rig = Rig(App)
        sock = rig.new_sock()
        body = b'x=1' if method == 'POST' else b''
        req = '%s /p HTTP/1.1\r\nHost: example.org\r\nAuthorization: %s\r\n' % (method, header)
        if body:
            req += 'Content-Length: %d\r\n' % len(body)
        rig.feed(sock, req.encode() + b'\r\n' + body)
        out = rig.out(sock)
        # which scheme the header speaks decides which checker runs: a Basic header is judged by the Basic rule even
        # when the application challenges with Digest (check_auth dispatches on the header's scheme)
        expected = verifies(table) and (idiom != 'nested-areas' or verifies(OUTER))
        header_scheme = header.split(' ', 1)[0].lower()
        # a header of the other scheme than the one the application is configured for: accepting is only allowed when the
        # credentials verify; refusing is always fine (the Basic/Digest checkers use different password encodings)
        mismatch = header_scheme in ('basic', 'digest') and header_scheme != scheme
        granted = SECRET.encode() in out
        w = {'header': label, 'table': tname, 'scheme_configured': scheme, 'idiom': idiom}
        detail = 'method=%s scheme=%s table=%s header=%s (%r) idiom=%s: granted=%s expected=%s login=%r out=%r exceptions=%s' % (
            method, scheme, tname, label, header[:70], idiom, granted, expected, seen.get('login'), out[:80], rig.exceptions[:1])
        g.note({'header': label, 'table': tname, 'scheme': scheme, 'granted': granted})
        if granted and not expected:
            g.fail('unverified-credentials-accepted', w, detail)
        elif expected and not granted and not mismatch:
            g.fail('valid-credentials-refused', w, detail)
        if seen.get('login') and not expected:
            g.fail('login-set-without-verification', w, detail)
        if granted and expected and seen.get('login') not in ('admin', 'bob', 'eve', 'mallory'):
            g.fail('login-not-set', w, detail)
        if out:
            try:
                parse_responses(out, methods=[method], eof=rig.conn(sock)['closed'])
            except ValueError as e:
                g.fail('response-not-well-formed', w, '%s; %s' % (e, detail))
    return harness


def make_session_harness():
    def harness(g):
        store_seen = {}

        class App(BaseComponent):
            channel = 'web'

            @handler('request', priority=0.5)
            def _on_request(self, event, req, res, *a):
                sess = req.session
                who = req.headers.get('X-Client', '?')
                store_seen[who] = {'sid': sess.sid, 'data': dict(sess)}
                if who == 'victim':
                    sess['owner'] = 'victim-data'
                    sess.store.save(sess.sid, sess)
                return 'sid=%s data=%s' % (sess.sid, sorted(sess.items()))

        rig = Rig(App, extra=[SS.Sessions()])
        ip1, agent1 = '10.0.0.5', 'AgentOne'
        s1 = WebSock('victim', peer=(ip1, 40000))
        rig.conn(s1)
        rig.feed(s1, ('GET /s HTTP/1.1\r\nHost: example.org\r\nUser-Agent: %s\r\nX-Client: victim\r\n\r\n' % agent1).encode())
        out1 = rig.out(s1)
        import re
        m = re.search(rb'Set-Cookie: circuits=([^;\r\n]+)', out1)
        if not m:
            g.fail('no-session-cookie', {}, repr(out1[:200]))
            raise PathEnd()
        c1_raw = m.group(1).decode()
        c1 = c1_raw.strip('"')          # SimpleCookie quotes values containing '/'
        same_ip = g.flag('same_ip')
        same_agent = g.flag('same_agent')
        ip2 = ip1 if same_ip else '6.6.6.6'
        agent2 = agent1 if same_agent else 'AgentTwo'
        who2 = hashlib.sha1(('%s%s' % (ip2, agent2)).encode()).hexdigest()
        uuid_part = c1.split('/', 1)[0]
        cookie = g.pick('cookie', ['verbatim', 'none', 'forged-uuid-plus-own-fingerprint', 'uuid-only', 'garbage', 'other-uuid-own-fingerprint', 'trailing-slash'])
        cval = {'verbatim': c1_raw, 'none': None, 'forged-uuid-plus-own-fingerprint': '%s/%s' % (uuid_part, who2), 'uuid-only': uuid_part, 'garbage': 'xyz',
                'other-uuid-own-fingerprint': '%s/%s' % ('0' * 32, who2), 'trailing-slash': c1 + '/'}[cookie]
        s2 = WebSock('second', peer=(ip2, 40001))
        rig.conn(s2)
        req2 = 'GET /s HTTP/1.1\r\nHost: example.org\r\nUser-Agent: %s\r\nX-Client: second\r\n' % agent2
        if cval is not None:
            req2 += 'Cookie: circuits=%s\r\n' % cval
        rig.feed(s2, (req2 + '\r\n').encode())
        second = store_seen.get('second')
        w = {'cookie': cookie, 'same_ip': same_ip, 'same_agent': same_agent}
        detail = 'cookie=%s same_ip=%s same_agent=%s: second request saw %s (victim sid %s); exceptions=%s' % (cookie, same_ip, same_agent, second, c1, rig.exceptions[:1])
        g.note({'cookie': cookie, 'same_ip': same_ip, 'same_agent': same_agent, 'second_saw': str(second)})
        if second is None:
            if rig.exceptions:
                g.fail('session-request-crashed', w, detail)
            else:
                g.fail('second-request-not-served', w, detail)
            raise PathEnd()
        legit = cval is not None and cval.strip('"') == c1 and same_ip and same_agent
        sees_victim_data = second['data'].get('owner') == 'victim-data'
        if sees_victim_data and not legit:
            g.fail('session-data-disclosed', w, detail)
        if legit and not sees_victim_data:
            g.fail('own-session-lost', w, detail)
        if not legit and second['sid'] == c1:
            g.fail('foreign-session-id-accepted', w, detail)
    return harness


def make_vhost_harness():
    def harness(g):
        gw = g.pick('trusted_gateways', ['none', 'empty', 'one'])
        gateways = {'none': None, 'empty': [], 'one': ['10.0.0.1']}[gw]
        ip = g.pick('remote_ip', ['10.0.0.1', '6.6.6.6'])
        xfh = g.pick('x_forwarded_host', [None, 'b.example', 'B.Example, c.example', ' '])
        host = g.pick('host', ['a.example', 'unknown.example'])
        seen = {}

        class App(BaseComponent):
            channel = 'web'

            @handler('request', priority=0.5)
            def _on_request(self, event, req, res, *a):
                seen['path'] = req.path
                return 'path=%s' % req.path

        rig = Rig(App, extra=[VH.VirtualHosts({'a.example': 'sitea', 'b.example': 'siteb'}, trusted_gateways=gateways)])
        s = WebSock('c', peer=(ip, 1234))
        rig.conn(s)
        req = 'GET /page HTTP/1.1\r\nHost: %s\r\n' % host
        if xfh is not None:
            req += 'X-Forwarded-Host: %s\r\n' % xfh
        rig.feed(s, (req + '\r\n').encode())
        path = seen.get('path')
        w = {'gateways': gw, 'from_gateway': ip == '10.0.0.1', 'forwarded': xfh is not None and xfh.strip() != ''}
        detail = 'trusted_gateways=%s remote=%s Host=%s X-Forwarded-Host=%r -> path %r; exceptions=%s' % (gateways, ip, host, xfh, path, rig.exceptions[:1])
        g.note({'gateways': gw, 'remote': ip, 'xfh': xfh, 'path': path})
        if path is None:
            g.fail('request-not-served', w, detail)
            raise PathEnd()
        by_host = {'a.example': '/sitea/page', 'unknown.example': '/page'}[host]
        by_forwarded = '/siteb/page'
        if gateways is None:
            return                                  # not configured: not judged
        honour = xfh is not None and xfh.strip() != '' and ip in gateways
        expect = by_forwarded if honour else by_host
        if path != expect:
            clause = 'forwarded-host-honoured-from-untrusted-address' if path == by_forwarded else 'wrong-virtual-host-routing'
            g.fail(clause, w, 'expected %s; %s' % (expect, detail))
    return harness


XH_PREAMBLE = '''
from circuits.web import tools
from circuits.web.wrappers import Request, Response
from circuits.web.headers import Headers


class _Srv:
    secure = False
    host = '127.0.0.1'
    port = 80
    display_banner = False


def _granted(header, users):
    req = Request(None, 'GET', 'http', '/p', (1, 1), '', headers=Headers([('Authorization', header)]), server=_Srv())
    res = Response(req)
    try:
        r = tools.check_auth(req, res, 'Test', users, str)
    except Exception:
        return False
    return bool(r)
'''

XH_CONDITIONS = [
    {'name': 'empty_table_never_grants', 'clause': 'unverified-credentials-accepted', 'timeout': 25, 'timeout_thorough': 300, 'src': '''
def empty_table_never_grants(h: str) -> bool:
    """
    pre: len(h) <= 8
    post: _
    """
    return not _granted(h, {})
'''},
    {'name': 'digest_prefix_never_grants', 'clause': 'unverified-credentials-accepted', 'timeout': 25, 'timeout_thorough': 300, 'src': '''
def digest_prefix_never_grants(tail: str) -> bool:
    """
    pre: len(tail) <= 6
    post: _
    """
    return not _granted('Digest ' + tail, {'admin': 'pw'})
'''},
]

ENC_A = [WT.check_auth, HA.parseAuthorization, HA.checkResponse, HA._checkBasicResponse, HA._checkDigestResponse, HA._computeDigestResponse]
ENC_S = [SS.who, SS.create_session, SS.verify_session, SS.Sessions.request, SS.MemoryStore.load]
ENC_V = [VH.VirtualHosts.__init__, VH.VirtualHosts._on_request]


def canaries():
    from harness.common import mutate

    def with_dispatch_table(owner_fn_name, old, new):
        """_httpauth keeps its checkers in a dict: patch the function and the table entry"""
        def apply():
            undo = mutate(HA, owner_fn_name, old, new)
            saved = HA.AUTH_RESPONSES['digest']
            HA.AUTH_RESPONSES['digest'] = getattr(HA, owner_fn_name)

            def undo_all():
                HA.AUTH_RESPONSES['digest'] = saved
                undo()
            return undo_all
        return apply

    def store_by_uuid():
        u1 = mutate(SS.MemoryStore, 'load', 'return Session(sid, self.data[sid], self)', "return Session(sid, self.data[sid.split('/')[0]], self)")
        u2 = mutate(SS.MemoryStore, 'save', 'self.data[sid] = data', "self.data[sid.split('/')[0]] = data")

        def undo():
            u1()
            u2()
        return undo

    return [
        ('digest-compare-prefix-only', 'auth', with_dispatch_table('_checkDigestResponse', "return response == auth_map['response']", "return all(a == b for a, b in zip(response, auth_map['response']))"), ['unverified-credentials-accepted']),
        ('realm-not-checked', 'auth', with_dispatch_table('_checkDigestResponse', "if auth_map['realm'] != kwargs.get('realm', None):", "if False:"), ['unverified-credentials-accepted']),
        ('fingerprint-not-checked', 'sessions', lambda: mutate(SS, 'verify_session', 'if user != who(request):', 'if False:'), ['session-data-disclosed', 'foreign-session-id-accepted']),
        ('store-keyed-by-uuid-only', 'sessions', store_by_uuid, ['session-data-disclosed']),
        ('gateway-check-dropped', 'virtual-hosts', lambda: mutate(VH.VirtualHosts, '_on_request', 'if self.trusted_gateways is None or request.remote.ip in self.trusted_gateways:', 'if True:'), ['forwarded-host-honoured-from-untrusted-address']),
    ]


def parts(tier):
    xh = Part('credential-check-symbolic', kind='crosshair', conditions=XH_CONDITIONS,
              bounds={'Authorization': 'symbolic str, len <= 8, against an empty table; "Digest " + symbolic str len <= 6 against one user'})
    xh.xh_preamble = XH_PREAMBLE
    return [
        Part('auth', make_auth_harness(), bounds={'headers': [h[0] for h in header_grammar('GET')], 'tables': [t[0] for t in TABLES], 'schemes': ['basic', 'digest'], 'methods': ['GET', 'POST'], 'idioms': ['check_auth then helper', 'helper only', 'two nested check_auth calls with different user tables']},
             encoded=ENC_A, budget_s=85),
        Part('sessions', make_session_harness(), bounds={'cookie': 7, 'address': 'same/other', 'user_agent': 'same/other'}, encoded=ENC_S, budget_s=60),
        Part('virtual-hosts', make_vhost_harness(), bounds={'trusted_gateways': ['None', '[]', "['10.0.0.1']"], 'remote': 2, 'x_forwarded_host': 4, 'host': 2}, encoded=ENC_V, budget_s=60),
        xh,
    ]


if __name__ == '__main__':
    sys.exit(run_property(sys.modules[__name__]))
