"""C17 -- WebSocket frames round-trip exactly, whatever the segmentation or fragmentation.

Real code: WebSocketCodec._parse_messages/_encode_tail/_on_write/_on_close and the read handler it installs.
pathex: payload lengths at the encoding boundaries, masked/unmasked, text/binary, cut positions as z3 Ints inside the
header / extended length / masking key / around the payload end, fragmentation programs with an interleaved ping,
close handling.  CrossHair: payload contents and masking key symbolic on the decoder kernel (duck-typed self).
The oracle is an independent RFC 6455 encoder/decoder written in this file.
"""

import os
import sys

sys.path.insert(0, os.path.dirname(os.path.dirname(os.path.abspath(__file__))))

from circuits.core.components import BaseComponent  # noqa: E402
from circuits.core.handlers import handler  # noqa: E402
from circuits.net.events import close, read, write  # noqa: E402
from circuits.protocols import websocket as WS  # noqa: E402

from harness.common import Part, run_property  # noqa: E402
from pathex import PathEnd  # noqa: E402

PROPERTY = 'C17'
EXPLANATION = ('C17: frames built by an independent RFC 6455 encoder (all three length encodings, masked/unmasked, text/binary, '
               'fragmented with an interleaved ping, close) are delivered to the real codec cut at symbolic positions; messages '
               'written through the codec are decoded by an independent decoder; CrossHair explores payload contents and masking '
               'keys on the decoder kernel.')
ASSUMPTIONS = ['the codec is driven through read/write/close events on its parent\'s and its own channel (server mode with a socket token, and client mode)',
               'text payloads are valid UTF-8 (the codec decodes with errors="replace")']
OUTSIDE = ['payloads beyond 65537 bytes', 'invalid UTF-8 in text frames', 'reserved bits / unknown opcodes']


# ---- independent RFC 6455 reference ---------------------------------------------------------------------------
def ref_frame(opcode, payload, fin=True, mask=None):
    b0 = (0x80 if fin else 0) | opcode
    n = len(payload)
    out = bytearray([b0])
    m = 0x80 if mask is not None else 0
    if n <= 125:
        out.append(m | n)
    elif n <= 0xFFFF:
        out.append(m | 126)
        out += n.to_bytes(2, 'big')
    else:
        out.append(m | 127)
        out += n.to_bytes(8, 'big')
    if mask is not None:
        out += bytes(mask)
        out += bytes(c ^ mask[i % 4] for i, c in enumerate(payload))
    else:
        out += payload
    return bytes(out)


def ref_decode(data):
    """-> list of (fin, opcode, masked, payload); raises ValueError on a truncated stream"""
    out = []
    i = 0
    while i < len(data):
        if len(data) - i < 2:
            raise ValueError('truncated header')
        b0, b1 = data[i], data[i + 1]
        i += 2
        n = b1 & 0x7F
        if n == 126:
            n = int.from_bytes(data[i:i + 2], 'big')
            i += 2
        elif n == 127:
            n = int.from_bytes(data[i:i + 8], 'big')
            i += 8
        mask = None
        if b1 & 0x80:
            mask = data[i:i + 4]
            i += 4
        if len(data) - i < n:
            raise ValueError('truncated payload')
        p = data[i:i + n]
        i += n
        if mask:
            p = bytes(c ^ mask[k % 4] for k, c in enumerate(p))
        out.append((bool(b0 & 0x80), b0 & 0xF, mask is not None, bytes(p)))
    return out


def payload_of(n, text):
    base = b'abcdefghijklmnopqrstuvwxyz0123456789' if text else bytes(range(256))
    return (base * (n // len(base) + 1))[:n]


class Harness:
    """codec under a parent component; captures what it delivers and what it writes"""

    def __init__(self, server_mode, initial=b''):
        self.sock = object() if server_mode else None
        self.delivered = []
        self.written = bytearray()
        self.closes = []
        self.exceptions = []
        h = self

        class Parent(BaseComponent):
            channel = 'raw'

            @handler('write')
            def _on_write(self, *args):
                h.written += bytes(args[-1])

            @handler('close')
            def _on_close(self, *args):
                h.closes.append('raw')

            @handler('exception', channel='*')
            def _on_exc(self, etype, evalue, tb, handler=None, fevent=None):
                h.exceptions.append('%s: %s' % (getattr(etype, '__name__', etype), evalue))

        class App(BaseComponent):
            channel = 'ws'

            @handler('read', priority=-1)
            def _on_read(self, *args):
                h.delivered.append(args[-1])

        self.parent = Parent()
        self.codec = WS.WebSocketCodec(self.sock, bytearray(initial), channel='ws').register(self.parent)
        App().register(self.parent)
        self.settle()

    def settle(self):
        for _ in range(12):
            if not len(self.parent._queue):
                break
            self.parent.flush()

    def feed(self, data):
        if self.sock is not None:
            self.parent.fire(read(self.sock, data), 'raw')
        else:
            self.parent.fire(read(data), 'raw')
        self.settle()

    def send(self, data):
        if self.sock is not None:
            self.parent.fire(write(self.sock, data), 'ws')
        else:
            self.parent.fire(write(data), 'ws')
        self.settle()

    def close(self):
        if self.sock is not None:
            self.parent.fire(close(self.sock), 'ws')
        else:
            self.parent.fire(close(), 'ws')
        self.settle()


LENGTHS_Q = [0, 1, 125, 126, 127, 4097, 65535, 65536]


def norm(x):
    return x if isinstance(x, str) else bytes(x)


def make_decode_harness(two_cuts=False):
    def harness(g):
        server = g.flag('server_mode')
        text = g.flag('text')
        masked = g.flag('masked')
        n = g.pick('len', LENGTHS_Q)
        payload = payload_of(n, text)
        frame = ref_frame(1 if text else 2, payload, True, [0x11, 0xA2, 0x03, 0xF4] if masked else None)
        second = ref_frame(2, b'tail', True, [1, 2, 3, 4] if masked else None)
        stream = frame + second
        L = len(frame)
        head = L - n          # header (+ key) length
        # cut positions: anywhere in the header/key, and around the end of the payload / start of the next frame
        zone = g.pick('zone', ['header', 'payload-end', 'none'])
        if zone == 'header':
            c = int(g.int('cut', 1, min(head + 1, L)))
        elif zone == 'payload-end':
            c = int(g.int('cut_end', max(1, L - 2), L + 3))
        else:
            c = None
        cuts = [] if c is None else [c]
        if two_cuts and c is not None:
            c2 = int(g.int('cut2', 1, min(head + 3, len(stream) - 1)))
            if c2 != c:
                cuts = sorted({c, c2})
        h = Harness(server)
        prev = 0
        for c in cuts:
            h.feed(stream[prev:c])
            prev = c
        h.feed(stream[prev:])
        expect = [payload.decode() if text else payload, b'tail']
        got = [norm(x) for x in h.delivered]
        w = {'zone': zone, 'masked': masked, 'len': n, 'cut_inside_header': bool(cuts and cuts[0] < head)}
        detail = 'server=%s text=%s masked=%s len=%d cuts=%s (header %d bytes): delivered %s, exceptions %s' % (
            server, text, masked, n, cuts, head, [(type(x).__name__, len(x)) for x in got], h.exceptions[:1])
        g.note({'len': n, 'masked': masked, 'text': text, 'cuts': cuts, 'header_bytes': head})
        if h.exceptions:
            g.fail('exception-in-decoder', w, detail)
            raise PathEnd()
        if got != expect:
            g.fail('decoded-messages-differ', w, detail)
    return harness


def make_fragment_harness():
    def harness(g):
        server = g.flag('server_mode')
        text = g.flag('text')
        masked = g.flag('masked')
        k = g.pick('frames', [2, 3])
        ping_at = g.pick('ping_after_frame', [None] + list(range(1, k)))
        sizes = [g.pick('size%d' % i, [0, 3] if i else [0, 3, 126]) for i in range(k)]
        mk = (lambda i: [i + 1, 7, 9, 250]) if masked else (lambda i: None)
        whole = b''
        stream = b''
        for i, sz in enumerate(sizes):
            part = payload_of(sz, text)
            whole += part
            op = (1 if text else 2) if i == 0 else 0
            stream += ref_frame(op, part, i == k - 1, mk(i))
            if ping_at == i + 1:
                stream += ref_frame(9, b'pingpayload', True, mk(9))
        stream += ref_frame(2, b'after', True, mk(5))
        cut = g.flag('cut')
        h = Harness(server)
        if cut:
            c = int(g.int('c', 1, min(len(stream) - 1, 40)))
            h.feed(stream[:c])
            h.feed(stream[c:])
        else:
            h.feed(stream)
        expect = [whole.decode() if text else whole, b'after']
        got = [norm(x) for x in h.delivered]
        w = {'ping_inside_fragments': ping_at is not None, 'masked': masked}
        detail = 'server=%s text=%s masked=%s sizes=%s ping_after=%s cut=%s: delivered %s written %r exceptions %s' % (
            server, text, masked, sizes, ping_at, cut, [(type(x).__name__, x[:12] if len(x) < 40 else len(x)) for x in got], bytes(h.written[:40]), h.exceptions[:1])
        g.note({'sizes': sizes, 'ping_after_frame': ping_at, 'cut': cut})
        if h.exceptions:
            g.fail('exception-in-decoder', w, detail)
            raise PathEnd()
        if got != expect:
            g.fail('fragmented-message-differs', w, detail)
        # the ping must be answered by a pong with the same payload
        try:
            frames = ref_decode(bytes(h.written))
        except ValueError as e:
            g.fail('written-frames-malformed', w, '%s; %s' % (e, detail))
            raise PathEnd()
        pongs = [f for f in frames if f[1] == 10]
        if ping_at is not None:
            if len(pongs) != 1 or pongs[0][3] != b'pingpayload' or not pongs[0][0]:
                g.fail('pong-payload-differs', w, 'pongs=%s; %s' % (pongs, detail))
            elif pongs[0][2] != (not server):
                g.fail('masking-rule-violated', w, detail)
        elif pongs:
            g.fail('unsolicited-pong', w, detail)
    return harness


def make_encode_harness():
    def harness(g):
        server = g.flag('server_mode')
        text = g.flag('text')
        n = g.pick('len', LENGTHS_Q + [65537])
        data = payload_of(n, text)
        h = Harness(server)
        h.send(data.decode() if text else data)
        w = {'len': n}
        detail = 'server=%s text=%s len=%d written %d bytes head %r exceptions %s' % (server, text, n, len(h.written), bytes(h.written[:14]), h.exceptions[:1])
        g.note({'len': n, 'text': text, 'server': server})
        if h.exceptions:
            g.fail('exception-in-encoder', w, detail)
            raise PathEnd()
        try:
            frames = ref_decode(bytes(h.written))
        except ValueError as e:
            g.fail('written-frames-malformed', w, '%s; %s' % (e, detail))
            raise PathEnd()
        if len(frames) != 1:
            g.fail('written-frame-count', w, '%d frames; %s' % (len(frames), detail))
            raise PathEnd()
        fin, op, masked, p = frames[0]
        if not fin or op != (1 if text else 2) or p != data:
            g.fail('encoded-message-differs', w, 'fin=%s opcode=%d payload %d bytes; %s' % (fin, op, len(p), detail))
        if masked != (not server):
            g.fail('masking-rule-violated', w, detail)
        # minimal length encoding (RFC 6455 5.2)
        b1 = h.written[1] & 0x7F
        if (n <= 125 and b1 != n) or (125 < n <= 0xFFFF and b1 != 126) or (n > 0xFFFF and b1 != 127):
            g.fail('length-encoding-not-minimal', w, detail)
    return harness


def make_close_harness():
    def harness(g):
        server = g.flag('server_mode')
        who = g.pick('who_closes_first', ['peer', 'local'])
        masked = not server
        mk = [9, 9, 9, 9] if server else None      # frames from the peer: clients mask, servers do not
        mk_peer = [9, 9, 9, 9] if server else None
        h = Harness(server)
        if who == 'peer':
            h.feed(ref_frame(8, b'', True, mk_peer) + ref_frame(2, b'late', True, mk_peer))
            h.feed(ref_frame(2, b'later', True, mk_peer))
            h.send(b'data-after-close')
        else:
            h.close()
            h.send(b'data-after-close')
            h.feed(ref_frame(9, b'p', True, mk_peer))
            h.feed(ref_frame(2, b'still-allowed', True, mk_peer))
            h.feed(ref_frame(8, b'', True, mk_peer) + ref_frame(2, b'late', True, mk_peer))
        w = {'who': who}
        detail = 'server=%s who=%s delivered=%s written=%r closes=%s exceptions=%s' % (server, who, [norm(x) for x in h.delivered], bytes(h.written), h.closes, h.exceptions[:1])
        g.note({'who': who, 'server': server})
        if h.exceptions:
            g.fail('exception-around-close', w, detail)
            raise PathEnd()
        got = [norm(x) for x in h.delivered]
        if b'late' in got or b'later' in got:
            g.fail('message-delivered-after-close-frame', w, detail)
        try:
            frames = ref_decode(bytes(h.written))
        except ValueError as e:
            g.fail('written-frames-malformed', w, '%s; %s' % (e, detail))
            raise PathEnd()
        ops = [f[1] for f in frames]
        if ops.count(8) != 1:
            g.fail('close-frame-count', w, 'opcodes written %s; %s' % (ops, detail))
        elif any(o in (1, 2, 0) for o in ops[ops.index(8):]):
            g.fail('data-sent-after-close-frame', w, 'opcodes written %s; %s' % (ops, detail))
        if 'raw' not in h.closes:
            g.fail('transport-not-closed-after-close-handshake', w, detail)
    return harness


XH_PREAMBLE = '''
from circuits.protocols.websocket import WebSocketCodec
from harness.c17 import ref_frame


class _Self:
    """duck-typed self for the decoder kernel"""
    def __init__(self):
        self._buffer = bytearray()
        self._pending_payload = bytearray()
        self._pending_type = None
        self._close_received = False
        self._close_sent = False
        self._sock = None
        self.fired = []

    def fire(self, *a, **k):
        self.fired.append(a)

    def _write(self, data):
        self.fired.append(('write', bytes(data)))

    _encode_tail = WebSocketCodec._encode_tail


def _decode(segments):
    s = _Self()
    out = []
    for seg in segments:
        out.extend(WebSocketCodec._parse_messages(s, bytearray(seg)))
    return [bytes(m) for m in out]
'''

XH_CONDITIONS = [
    {'name': 'decode_masked_roundtrip', 'clause': 'decoded-messages-differ', 'timeout': 20, 'timeout_thorough': 300, 'src': '''
def decode_masked_roundtrip(payload: bytes, k0: int, k1: int, k2: int, k3: int) -> bool:
    """
    pre: len(payload) <= 3
    pre: 0 <= k0 < 256 and 0 <= k1 < 256 and 0 <= k2 < 256 and 0 <= k3 < 256
    post: _
    """
    frame = ref_frame(2, payload, True, [k0, k1, k2, k3])
    return _decode([frame]) == [payload]
'''},
    {'name': 'decode_two_segments', 'clause': 'decoded-messages-differ', 'timeout': 20, 'timeout_thorough': 300, 'src': '''
def decode_two_segments(payload: bytes, cut: int, masked: bool) -> bool:
    """
    pre: len(payload) <= 2
    pre: 1 <= cut <= 7
    post: _
    """
    frame = ref_frame(2, payload, True, [7, 8, 9, 10] if masked else None)
    if cut >= len(frame):
        return True
    return _decode([frame[:cut], frame[cut:]]) == [payload]
'''},
]

ENC = [WS.WebSocketCodec._parse_messages]
ENC_W = [WS.WebSocketCodec._on_write, WS.WebSocketCodec._encode_tail]


def canaries():
    from harness.common import mutate
    return [
        ('16bit-boundary-off', 'encode', lambda: mutate(WS.WebSocketCodec, '_encode_tail', 'elif data_length <= 0xFFFF:', 'elif data_length <= 0x10000:'), None),
        ('mask-index-wrong', 'decode-cuts', lambda: mutate(WS.WebSocketCodec, '_parse_messages', 'masking_key[i % 4]', 'masking_key[i % 3]'), None),
        ('pending-not-reset', 'fragments', lambda: mutate(WS.WebSocketCodec, '_parse_messages', 'self._pending_payload = bytearray()\n                msgs.append(msg)', 'msgs.append(msg)'), None),
    ]


def parts(tier):
    xh = Part('decoder-kernel-symbolic', kind='crosshair', conditions=XH_CONDITIONS,
              bounds={'payload': 'bytes, len <= 3 (symbolic contents)', 'masking_key': '4 symbolic bytes', 'cut': '1..7 (symbolic)'})
    xh.xh_preamble = XH_PREAMBLE
    out = [
        Part('decode-cuts', make_decode_harness(False), bounds={'lengths': LENGTHS_Q, 'masked': 'yes/no', 'type': 'text/binary', 'mode': 'server/client',
                                                                  'cut': 'z3 Int over the header+key bytes, and from 2 before to 3 after the end of the frame'},
             encoded=ENC, budget_s=85),
        Part('fragments', make_fragment_harness(), bounds={'frames': [2, 3], 'fragment_sizes': 'first 0/3/126, others 0/3', 'ping': 'between any two fragments', 'cut': 'none or one z3 Int within the first 40 bytes'},
             encoded=ENC, budget_s=85),
        Part('encode', make_encode_harness(), bounds={'lengths': LENGTHS_Q + [65537]}, encoded=ENC_W, budget_s=60),
        Part('close', make_close_harness(), bounds={'who_closes_first': ['peer', 'local']}, encoded=ENC + [WS.WebSocketCodec._on_close], budget_s=60),
        xh,
    ]
    if tier == 'thorough':
        out.insert(1, Part('decode-two-cuts', make_decode_harness(True), bounds={'cuts': 2}, encoded=ENC, budget_s=1500))
    return out


if __name__ == '__main__':
    sys.exit(run_property(sys.modules[__name__]))
