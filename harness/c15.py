"""C15 -- every HTTP response is a well-formed, self-delimiting message with exact body.

Real code: wrappers.Response.prepare/__bytes__, Body.__set__, file_generator, HTTP._on_response/_on_stream/
_on_request_success, Headers.__bytes__.  Choices: body kind x size x status x protocol version x Connection header x
method x streaming, and a second request on the same connection.
"""

import io
import os
import sys

sys.path.insert(0, os.path.dirname(os.path.dirname(os.path.abspath(__file__))))

from circuits.core.components import BaseComponent  # noqa: E402
from circuits.core.handlers import handler  # noqa: E402
from circuits.web import http as WH  # noqa: E402
from circuits.web import wrappers as WW  # noqa: E402

from circuits.net import sockets as SK  # noqa: E402

from harness.common import Part, run_property  # noqa: E402
from harness.httpkit import Rig, StackRig, parse_responses  # noqa: E402
from pathex import PathEnd  # noqa: E402

PROPERTY = 'C15'
EXPLANATION = ('C15: the application answers with a body of a chosen kind (str, bytes, list, generator of str/bytes with empty '
               'items, file object) and size (0, 1, 5, 4097), status, and streaming flag; the request is HTTP/1.0 or 1.1, GET or '
               'HEAD, with Connection keep-alive/close/absent; a second request may follow on the same connection.  The bytes '
               'written are decoded by http.client (independent implementation) and compared with what the application produced.')
ASSUMPTIONS = ['the TCP server is replaced by a sink recording write/close', 'http.client.HTTPResponse is the reference for well-formedness and framing']
OUTSIDE = ['bodies larger than 4097 bytes', 'gzip/compression tools', 'Expect: 100-continue']

KINDS = ['str', 'bytes', 'list', 'list-unicode', 'gen-str', 'gen-bytes', 'gen-empty-items', 'file', 'file-short-reads', 'none']


class ShortReads:
    """a raw stream: read(n) may return fewer than n bytes before EOF"""

    def __init__(self, data):
        self.data = data
        self.pos = 0
        self.closed = False

    def read(self, n=-1):
        k = (2 if self.pos % 4 == 0 else 3) if len(self.data) <= 16 else 1500
        chunk = self.data[self.pos:self.pos + min(k, n if n and n > 0 else k)]
        self.pos += len(chunk)
        return chunk

    def close(self):
        self.closed = True
SIZES = [0, 1, 5, 4097]
STATUSES = [200, 404, 204, 304, 500]


def payload(size):
    return (b'0123456789abcdef' * 300)[:size]


class App(BaseComponent):
    channel = 'web'

    def init(self):
        self.plan = []
        self.produced = []

    @handler('request', priority=0.5)
    def _on_request(self, event, req, res, *a):
        kind, size, status, stream = self.plan.pop(0)
        data = payload(size)
        res.status = status
        if kind == 'list-unicode':
            res.body = ['\u00e9\u20ac', data]
            return res
        if kind == 'str':
            return data.decode()
        if kind == 'bytes':
            return data
        if kind == 'none':
            res.body = ''
            return res
        if kind == 'list':
            res.body = [data[:2].decode(), data[2:]] if size > 2 else [data]
            return res
        if kind == 'file':
            res.body = io.BytesIO(data)
            return res
        if kind == 'file-short-reads':
            res.body = ShortReads(data)
            return res
        parts = [data[:1], data[1:3], data[3:]] if size > 3 else [data]
        if kind == 'gen-str':
            parts = [p.decode() for p in parts]
        if kind == 'gen-empty-items':
            parts = [b''] + parts[:1] + [''] + parts[1:] + [b'']

        def gen():
            yield from parts
        res.body = gen()
        res.stream = stream
        return res


def make_harness(two_requests=True, kinds=KINDS, sizes=SIZES, statuses=STATUSES, partial_sends=0):
    def one_config(g, i):
        kind = g.pick('kind%d' % i, kinds)
        size = g.pick('size%d' % i, sizes) if kind != 'none' else 0
        status = g.pick('status%d' % i, statuses)
        stream = g.flag('stream%d' % i) if kind.startswith('gen') else False
        version = g.pick('version%d' % i, ['1.1', '1.0'])
        conn = g.pick('conn%d' % i, ['absent', 'keep-alive', 'close'])
        method = g.pick('method%d' % i, ['GET', 'HEAD'])
        return {'kind': kind, 'size': size, 'status': status, 'stream': stream, 'version': version, 'conn': conn, 'method': method}

    def request_bytes(c, path):
        s = '%s %s HTTP/%s\r\nHost: example.org\r\n' % (c['method'], path, c['version'])
        if c['conn'] != 'absent':
            s += 'Connection: %s\r\n' % c['conn']
        return (s + '\r\n').encode()

    def harness(g):
        if not partial_sends:
            return run(g, Rig(App))
        # the real TCP server component below the HTTP component; the OS takes only part of some blocks
        sends = {'n': 0}

        def accept(sock, data):
            sends['n'] += 1
            if sends['n'] > partial_sends or len(data) < 2:
                return len(data)
            how = g.pick('send%d' % sends['n'], ['all', 'half', 'one'])
            return len(data) if how == 'all' else (len(data) // 2 if how == 'half' else 1)
        rig = StackRig(App, accept=accept)
        try:
            return run(g, rig)
        finally:
            rig.close()

    def run(g, rig):
        sock = rig.new_sock()
        half_closed = False
        configs = []
        n = 2 if two_requests else 1
        outs = []
        for i in range(n):
            if i == 1 and not g.flag('second_request'):
                break
            c = one_config(g, i)
            configs.append(c)
            rig.app.plan.append((c['kind'], c['size'], c['status'], c['stream']))
            before = len(rig.out(sock))
            if partial_sends and i == 0 and g.flag('peer_half_closes_after_request'):
                # the client shuts down its sending side right after the request, while the response is still in the
                # server's write buffer: it must get the whole response before the connection goes away
                half_closed = True
                rig.pump = False
                ok = rig.feed(sock, request_bytes(c, '/r%d' % i))
                ok = rig.peer_disconnect(sock) and ok
                rig.pump = True
                ok = rig.settle() and ok
            else:
                ok = rig.feed(sock, request_bytes(c, '/r%d' % i))
            outs.append(rig.out(sock)[before:])
            st = rig.conn(sock)
            if not ok:
                g.fail('never-settles', {'kind': c['kind']}, str(configs))
                raise PathEnd()
            if st['closed']:
                break
        st = rig.conn(sock)
        g.note({'configs': configs, 'out_head': rig.out(sock)[:90].decode('latin1')})
        out = rig.out(sock)
        wbase = {'first_method': configs[0]['method'], 'n_requests': len(configs)}
        detail = 'configs=%s out=%r closed=%s exceptions=%s' % (configs, out[:260], st['closed'], rig.exceptions[:2])
        if rig.exceptions:
            g.fail('unexpected-exception', wbase, detail)
            raise PathEnd()
        try:
            resps = parse_responses(out, methods=[c['method'] for c in configs], eof=st['closed'])
        except ValueError as e:
            g.fail('response-not-well-formed', dict(wbase, kind=configs[-1]['kind']), '%s; %s' % (e, detail))
            raise PathEnd()
        if len(resps) != len(configs):
            g.fail('response-count', wbase, '%d responses for %d requests; %s' % (len(resps), len(configs), detail))
            raise PathEnd()
        if len(rig.requests) != len(configs):
            g.fail('request-event-count', wbase, '%d request events for %d requests; %s' % (len(rig.requests), len(configs), detail))
        for i, (c, r) in enumerate(zip(configs, resps)):
            w = dict(wbase, kind=c['kind'], method=c['method'], status=c['status'], index=i, stream=c['stream'], version=c['version'])
            if rig.requests[i]['path'] != '/r%d' % i or rig.requests[i]['method'] != c['method']:
                g.fail('wrong-request-served', w, 'request event %s; %s' % (rig.requests[i], detail))
            if r['status'] != c['status']:
                g.fail('status-differs', w, 'got %s; %s' % (r['status'], detail))
            nobody = c['method'] == 'HEAD' or c['status'] in (204, 304) or c['status'] < 200
            full = payload(c['size']) if c['kind'] != 'list-unicode' else '\u00e9\u20ac'.encode('utf-8') + payload(c['size'])
            expect = b'' if nobody else full
            if r['body'] != expect:
                g.fail('body-differs', w, 'got %d bytes %r..., expected %d bytes; %s' % (len(r['body']), r['body'][:30], len(expect), detail))
            cl = [v for k, v in r['headers'] if k == 'content-length']
            if len(cl) > 1:
                g.fail('duplicate-content-length', w, detail)
            if cl and not nobody and int(cl[0]) != len(expect):
                g.fail('content-length-wrong', w, detail)
            if cl and c['method'] == 'HEAD' and c['status'] not in (204, 304) and int(cl[0]) not in (len(full),):
                g.fail('head-content-length-wrong', w, detail)
            last = i == len(resps) - 1
            if last:
                if r['will_close'] != st['closed'] and not (half_closed and st['closed']):
                    g.fail('close-mismatch', w, 'response says close=%s, connection closed=%s; %s' % (r['will_close'], st['closed'], detail))
            else:
                if r['will_close']:
                    g.fail('served-after-announced-close', w, detail)
            # keep-alive wishes: HTTP/1.1 without "close" and HTTP/1.0 with keep-alive should stay open when the body is
            # self-delimiting (informational: not demanded by the statement beyond "closed iff announced")
        if st['write_after_close']:
            g.fail('write-after-close', wbase, detail)
    return harness


ENC = [WW.Response.prepare, WW.Body.__set__, WH.HTTP._on_response, WH.HTTP._on_request_success]


def canaries():
    from harness.common import mutate
    return [
        ('content-length-counts-chars', 'responses', lambda: mutate(WW.Response, 'prepare', 'len(s.encode(self.encoding)) if not isinstance(s, bytes) else len(s)', 'len(s)'), None),
        ('chunk-terminator-missing', 'responses', lambda: mutate(WH.HTTP, '_on_stream', "if res.chunked:\n            self.fire(write(sock, b'0\\r\\n\\r\\n'))", "if res.chunked and res.close:\n            self.fire(write(sock, b'0\\r\\n\\r\\n'))"), None),
        ('no-close-for-1.0', 'responses', lambda: mutate(WW.Response, 'prepare', 'else:\n                self.close = True', 'else:\n                self.close = self.protocol == \'HTTP/1.1\''), None),
        ('partial-send-requeued-at-end', 'partial-sends', lambda: mutate(SK.Server, '_write', 'self._buffers[sock].appendleft(data[nbytes:])', 'self._buffers[sock].append(data[nbytes:])'), ['response-not-well-formed', 'body-differs']),
        ('clients-entry-kept', 'keep-alive-pairs', lambda: mutate(WH.HTTP, '_on_response', 'if sock in self._clients:\n                del self._clients[sock]\n            res.done = True', 'res.done = True'), None),
    ]


def parts(tier):
    if tier == 'quick':
        return [
            Part('responses', make_harness(two_requests=False), bounds={'requests': 1, 'kinds': KINDS, 'sizes': SIZES, 'statuses': STATUSES, 'versions': ['1.1', '1.0'], 'connection': ['absent', 'keep-alive', 'close'], 'methods': ['GET', 'HEAD'], 'stream': 'on/off for generators'},
                 encoded=ENC, budget_s=85),
            Part('partial-sends', make_harness(two_requests=True, kinds=['str', 'gen-bytes', 'file'], sizes=[5, 4097], statuses=[200], partial_sends=2),
                 bounds={'requests': '1-2', 'kinds': ['str', 'gen-bytes', 'file'], 'sizes': [5, 4097], 'transport': 'real TCPServer component; each of the first 2 send() calls takes all / half / one byte of the block'},
                 encoded=ENC + [WH.HTTP._on_stream, SK.Server.write, SK.Server._on_write, SK.Server._write], budget_s=90),
            Part('keep-alive-pairs', make_harness(two_requests=True, kinds=['str', 'gen-bytes', 'file', 'none'], sizes=[0, 5], statuses=[200, 204, 500]),
                 bounds={'requests': 2, 'kinds': ['str', 'gen-bytes', 'file', 'none'], 'sizes': [0, 5], 'statuses': [200, 204, 500]}, encoded=ENC + [WH.HTTP._on_stream], budget_s=85),
        ]
    return [Part('responses', make_harness(two_requests=False), bounds={'requests': 1}, encoded=ENC, budget_s=900),
            Part('partial-sends', make_harness(two_requests=True, kinds=['str', 'gen-bytes', 'file', 'file-short-reads'], sizes=[5, 4097], statuses=[200], partial_sends=3),
                 bounds={'requests': '1-2', 'kinds': ['str', 'gen-bytes', 'file', 'file-short-reads'], 'sizes': [5, 4097], 'transport': 'real TCPServer component; each of the first 3 send() calls takes all / half / one byte'},
                 encoded=ENC + [WH.HTTP._on_stream, SK.Server.write, SK.Server._on_write, SK.Server._write], budget_s=1800),
            Part('keep-alive-pairs', make_harness(two_requests=True, kinds=['str', 'gen-bytes', 'gen-empty-items', 'file', 'file-short-reads', 'none'], sizes=[0, 5], statuses=[200, 204, 500]),
                 bounds={'requests': 2, 'kinds': ['str', 'gen-bytes', 'gen-empty-items', 'file', 'file-short-reads', 'none'], 'sizes': [0, 5], 'statuses': [200, 204, 500]}, encoded=ENC + [WH.HTTP._on_stream], budget_s=3000)]


if __name__ == '__main__':
    sys.exit(run_property(sys.modules[__name__]))
