"""C06 -- call()/wait() resume the caller exactly once with the result, leaving no residue.

Real code: Manager.waitEvent, callEvent, processTask (all branches), registerTask/unregisterTask,
_eventDone (alert_done), tick, addHandler/removeHandler.  Choices: the program each handler runs.
Data: the timeout (z3 Int) compared and decremented by the real code.
"""

import os
import sys

sys.path.insert(0, os.path.dirname(os.path.dirname(os.path.abspath(__file__))))

from circuits.core import manager as M  # noqa: E402
from circuits.core.components import BaseComponent  # noqa: E402
from circuits.core.events import Event  # noqa: E402
from circuits.core.handlers import handler  # noqa: E402

from harness.common import Part, run_property  # noqa: E402
from pathex import PathEnd  # noqa: E402

PROPERTY = 'C06'
EXPLANATION = ('C06: handlers of three event levels (A calls/waits B or C, B calls/waits C) draw their step programs lazily '
               '(yield None / value, call, wait by object / by name, return, raise before or after a yield); the real task '
               'machinery runs to quiescence; exactly-once resumption, the value received, completion of the caller, and the '
               'absence of leftover handlers/tasks are checked against a ghost log.  A second part makes the timeout a z3 Int.')
ASSUMPTIONS = [
    'single thread; stepped with fire()/tick(); for the timeout part the manager is marked running and stepped with tick(0) '
    '(one generate_events per iteration, no idle wait)',
    'programs are acyclic (A -> B -> C)',
]
OUTSIDE = ['programs with more steps per handler / deeper nesting than the bounds', 'wait() on several channels at once']


class MyErr(Exception):
    pass


class A(Event):
    success = True
    complete = True


class A2(Event):
    pass


class B(Event):
    pass


class C(Event):
    pass


class D(Event):
    pass


def snapshot_handlers(comp):
    return {k: set(v) for k, v in comp._handlers.items()}


def make_harness(steps_a, steps_b, steps_c, roots=1, max_ticks=40, c2_may_raise=False, chain=False):
    def harness(g):
        log = []
        produced = {}      # event tag -> list of produced markers (values / 'ERR')
        terminal = {}      # (tag, handler) -> 'end'|'raised'
        handlers_of = {}   # tag -> set of handler names that started
        suspended = []     # dict(site, callee_tag, resumed=0)

        def prod(tag, v):
            produced.setdefault(tag, []).append(v)
            return v

        def term(tag, h, how):
            terminal[(tag, h)] = how
            log.append((how, tag, h))

        def do_raise(tag, h):
            prod(tag, 'ERR')
            term(tag, h, 'raised')
            raise MyErr(tag)

        def check_received(site, x, callee_tag, n_handlers):
            """x is what the caller's yield expression evaluated to"""
            site['resumed'] += 1
            site['got'] = x
            # every handler of the callee must be terminal
            unfinished = [h for h in range(n_handlers) if (callee_tag, h) not in terminal]
            site['unfinished'] = unfinished
            site['expected'] = list(produced.get(callee_tag, []))
            log.append(('resume', site['site'], callee_tag))

        def run_steps(self, tag, h, nsteps, menu, level):
            """generator body shared by A/B/C handlers"""
            for k in range(nsteps):
                act = g.pick('st_%s_%d' % (tag, k), menu)
                if act == 'end':
                    break
                if act == 'raise':
                    do_raise(tag, h)
                if act == 'fire_chain':
                    # something the handler starts and does not wait for: part of its event's closure all the same
                    self.fire(D(tag, 3))
                    continue
                if act == 'yield_none':
                    yield None
                elif act == 'yield_val':
                    yield prod(tag, ('y', tag, k))
                else:
                    kind, target = act.split('_', 1)     # call_B, waito_B, waitn_B, call_C ...
                    cls = {'B': B, 'C': C}[target]
                    ctag = '%s.%s%d' % (tag, target, k)
                    ev = cls(ctag)
                    site = {'site': '%s#%d' % (tag, k), 'callee': ctag, 'resumed': 0, 'kind': kind,
                            'n_handlers': 2 if target == 'C' else 1}
                    suspended.append(site)
                    log.append(('suspend', site['site'], ctag))
                    if kind == 'call':
                        x = yield self.call(ev)
                    elif kind == 'waito':
                        self.fire(ev)
                        x = yield self.wait(ev)
                    else:
                        self.fire(ev)
                        x = yield self.wait(target)
                    check_received(site, x, ctag, site['n_handlers'])
            term(tag, h, 'end')

        menu_c = ['end', 'raise', 'yield_none', 'yield_val']
        menu_b = menu_c + ['call_C', 'waito_C']
        # wait by *name* resumes on any event of that name: with several roots in flight that is another root's B by design
        menu_a = menu_c + (['call_B', 'waito_B', 'waitn_B', 'call_C'] if roots == 1 else ['call_B', 'waito_B', 'call_C'])
        if chain:
            menu_a = menu_a + ['fire_chain']

        class Comp(BaseComponent):
            @handler('A')
            def on_a(self, event, tag):
                handlers_of.setdefault(tag, set()).add(0)
                log.append(('start', tag, 0))
                yield from run_steps(self, tag, 0, steps_a, menu_a, 0)

            @handler('B')
            def on_b(self, event, tag):
                handlers_of.setdefault(tag, set()).add(0)
                log.append(('start', tag, 0))
                first = g.pick('first_%s' % tag, ['ret', 'raise_plain', 'gen'])
                if first == 'ret':
                    term(tag, 0, 'end')
                    return prod(tag, ('r', tag))
                if first == 'raise_plain':
                    do_raise(tag, 0)
                return run_steps(self, tag, 0, steps_b, menu_b, 1)

            @handler('C', priority=1)
            def on_c1(self, event, tag):
                handlers_of.setdefault(tag, set()).add(0)
                log.append(('start', tag, 0))
                first = g.pick('first_%s' % tag, ['ret', 'raise_plain', 'gen'])
                if first == 'ret':
                    term(tag, 0, 'end')
                    return prod(tag, ('r', tag))
                if first == 'raise_plain':
                    do_raise(tag, 0)
                return run_steps(self, tag, 0, steps_c, menu_c, 2)

            @handler('C', priority=0)
            def on_c2(self, event, tag):
                handlers_of.setdefault(tag, set()).add(1)
                log.append(('start', tag, 1))
                if c2_may_raise and g.flag('c2raise_%s' % tag):
                    # raises while the other handler of the same event may still be suspended
                    do_raise(tag, 1)
                term(tag, 1, 'end')
                return prod(tag, ('c2', tag))

            @handler('D')
            def on_d(self, event, tag, n):
                log.append(('chain', tag, n))
                if n > 0:
                    self.fire(D(tag, n - 1))

            @handler('A_success', channel='*')
            def on_succ(self, e, value):
                log.append(('success', e.args[0]))

            @handler('A_complete', channel='*')
            def on_comp(self, e, value):
                log.append(('complete', e.args[0]))

            @handler('exception', channel='*')
            def on_exc(self, etype, evalue, tb, handler=None, fevent=None):
                if isinstance(evalue, MyErr):
                    log.append(('exception', evalue.args[0]))
                else:
                    log.append(('exception-other', repr(evalue)))

        comp = Comp()
        comp.flush()
        before = snapshot_handlers(comp)
        del log[:]
        root_values = {}
        for r in range(roots):
            root_values['r%d' % r] = comp.fire(A('r%d' % r))
        ticks = 0
        while (len(comp._queue) or comp._tasks) and ticks < max_ticks:
            comp.tick()
            ticks += 1
        for _ in range(3):
            comp.tick()

        def same(item, p):
            if p == 'ERR':
                return isinstance(item, tuple) and len(item) == 3 and item[0] is MyErr
            return item == p

        def value_matches(got, expected):
            if len(expected) == 0:
                return got is None
            if len(expected) == 1:
                return same(got, expected[0])
            return isinstance(got, list) and len(got) == len(expected) and all(same(a, b) for a, b in zip(got, expected))

        gens_raising = [t for (t, h), how in terminal.items() if how == 'raised']
        note = {'log': [x for x in log][:40]}
        g.note(note)
        detail = 'log=%s' % (log[:60],)
        unexpected = [x for x in log if x[0] == 'exception-other']
        if unexpected:
            g.fail('unexpected-exception', {}, detail)
        # resumption
        for site in suspended:
            callee = site['callee']
            w = {'kind': site['kind'], 'callee_generator_raised': _gen_raised(log, callee),
                 'nested_callee_generator_raised': any(_gen_raised(log, t) for t in produced.keys() | {x[1] for x in log if x[0] == 'start'} if t.startswith(callee + '.'))}
            if site['resumed'] == 0:
                g.fail('caller-never-resumed', w, 'site %s callee %s %s' % (site['site'], callee, detail))
                continue
            if site['resumed'] > 1:
                g.fail('caller-resumed-twice', w, detail)
                continue
            if site['unfinished']:
                g.fail('resumed-before-callee-finished', w, 'unfinished handlers %s %s' % (site['unfinished'], detail))
            x = site['got']
            if not isinstance(x, M.Value):
                g.fail('received-not-a-value', w, repr(x))
                continue
            if not value_matches(x.value, site['expected']):
                g.fail('received-wrong-result', w, 'got %r expected %r %s' % (x.value, site['expected'], detail))
            exp_err = 'ERR' in site['expected']
            if bool(x.errors) != exp_err:
                g.fail('received-wrong-error-flag', w, 'errors=%r expected %r %s' % (x.errors, exp_err, detail))
        # callers' own events
        any_never = any(s['resumed'] == 0 for s in suspended)
        for r in range(roots):
            tag = 'r%d' % r
            w = {'some_caller_never_resumed': any_never, 'root_raised': terminal.get((tag, 0)) == 'raised'}
            if terminal.get((tag, 0)) is None:
                if not any_never:
                    g.fail('root-handler-never-finished', w, detail)
                continue
            if not value_matches(root_values[tag].value, produced.get(tag, [])):
                g.fail('root-value', w, 'got %r expected %r %s' % (root_values[tag].value, produced.get(tag, []), detail))
            ns = len([x for x in log if x == ('success', tag)])
            if ns != (0 if terminal[(tag, 0)] == 'raised' else 1):
                g.fail('root-success-count', w, detail)
            nc = len([x for x in log if x == ('complete', tag)])
            if terminal[(tag, 0)] != 'raised' and nc != 1:
                g.fail('root-complete-count', w, detail)
            if nc == 1:
                ci = log.index(('complete', tag))
                late = [x for x in log[ci:] if x[0] == 'chain' and x[1] == tag]
                if late:
                    g.fail('root-complete-before-its-effects', w, '%d chained events of %s dispatched after its complete; %s' % (len(late), tag, detail))
        # residue
        w = {'some_caller_never_resumed': any_never}
        if comp._tasks:
            g.fail('tasks-left', w, '%d tasks %s' % (len(comp._tasks), detail))
        after = snapshot_handlers(comp)
        if after != before:
            extra = {k: [getattr(h, '__name__', '?') for h in v - before.get(k, set())] for k, v in after.items() if v - before.get(k, set())}
            g.fail('handlers-left', w, 'extra=%s %s' % (extra, detail))
        if len(comp._queue):
            g.fail('never-quiescent', w, detail)
    return harness


def _gen_raised(log, tag):
    """callee `tag` has a handler that raised after having been started as a generator step (i.e. not synchronously
    inside the dispatcher): approximated by 'raised' record not immediately preceded by its 'start' record"""
    for i, x in enumerate(log):
        if x[0] == 'raised' and x[1] == tag:
            if i == 0 or not (log[i - 1][0] == 'start' and log[i - 1][1] == tag and log[i - 1][2] == x[2]):
                return True
            # raised right after start: for A/B/C generator handlers the first step runs in processTask, too
    return False


def make_timeout_harness(max_callee_steps=4, max_ticks=16):
    """A calls / waits for B with a symbolic timeout T; B yields None k times, then returns."""
    def harness(g):
        log = []
        st = {'gen_events': 0, 'suspend_at': None, 'resumed': 0, 'outcome': None}
        T = g.int('T', -1, 3)
        k = g.choose('callee_steps', max_callee_steps + 1)
        how = g.pick('how', ['call', 'waito', 'waitn', 'waitn_never_fired'])

        class Comp(BaseComponent):
            @handler('A')
            def on_a(self, event, tag):
                ev = B('b')
                st['suspend_at'] = st['gen_events']
                try:
                    if how == 'call':
                        x = yield self.call(ev, timeout=T)
                    elif how == 'waito':
                        self.fire(ev)
                        x = yield self.wait(ev, timeout=T)
                    elif how == 'waitn':
                        self.fire(ev)
                        x = yield self.wait('B', timeout=T)
                    else:
                        x = yield self.wait('B', timeout=T)
                    st['resumed'] += 1
                    st['outcome'] = ('value', x.value if x is not None else None)
                except M.TimeoutError:
                    st['resumed'] += 1
                    st['outcome'] = ('timeout', st['gen_events'] - st['suspend_at'])
                log.append(('a-end',))
                yield ('a', 'done')

            @handler('B')
            def on_b(self, event, tag):
                for i in range(k):
                    yield None
                log.append(('b-end',))
                yield ('b', 'result')

            @handler('generate_events', priority=5)
            def on_ge(self, event):
                st['gen_events'] += 1

            @handler('exception', channel='*')
            def on_exc(self, etype, evalue, tb, handler=None, fevent=None):
                log.append(('exception', repr(evalue)))

        comp = Comp()
        comp.flush()
        before = snapshot_handlers(comp)
        comp._running = True
        import threading
        comp._executing_thread = threading.current_thread()
        va = comp.fire(A('r0'))
        ticks = 0
        while ticks < max_ticks:
            comp.tick(0)
            ticks += 1
            if st['resumed'] and not comp._tasks and ('b-end',) in log or (how == 'waitn_never_fired' and st['resumed']):
                break
        for _ in range(4):
            comp.tick(0)
        comp._running = False
        comp._executing_thread = None
        w = {'how': how}
        detail = 'how=%s k=%d T=%s outcome=%s log=%s' % (how, k, g.value_of(T), st['outcome'], log)
        g.note({'how': how, 'callee_steps': k, 'T': g.value_of(T), 'outcome': str(st['outcome'])})
        if [x for x in log if x[0] == 'exception']:
            g.fail('unexpected-exception', w, detail)
        never_fired = how == 'waitn_never_fired'
        if st['resumed'] == 0:
            # legitimate only without timeout on an event that never fires
            if not g.check(g.And(T < 0, never_fired), 'caller-never-resumed', w, detail):
                return
            return
        if st['resumed'] > 1:
            g.fail('caller-resumed-twice', w, detail)
            return
        if st['outcome'][0] == 'timeout':
            elapsed = st['outcome'][1]
            g.check(g.And(T >= 0, T <= elapsed), 'timeout-too-early', w, detail)
        else:
            if st['outcome'][1] != ('b', 'result'):
                g.fail('received-wrong-result', w, detail)
            if ('b-end',) not in log:
                g.fail('resumed-before-callee-finished', w, detail)
        if va.value != ('a', 'done'):
            g.fail('root-value', w, detail + ' va=%r' % (va.value,))
        if comp._tasks:
            g.fail('tasks-left', w, detail)
        after = snapshot_handlers(comp)
        if after != before:
            extra = {kk: [getattr(h, '__name__', '?') for h in v - before.get(kk, set())] for kk, v in after.items() if v - before.get(kk, set())}
            w2 = dict(w)
            w2['timed_out'] = st['outcome'][0] == 'timeout'
            g.fail('handlers-left', w2, 'extra=%s %s' % (extra, detail))
    return harness


def make_two_waiters_harness(max_callee_steps=3, max_ticks=20):
    """Two handlers are suspended on the same event B: A1 with a symbolic timeout T, A2 without one."""
    def harness(g):
        log = []
        st = {'gen_events': 0, 'suspend_at': None, 'ev': B('b')}
        res = {1: {'resumed': 0, 'outcome': None}, 2: {'resumed': 0, 'outcome': None}}
        T = g.int('T', -1, 3)
        k = g.choose('callee_steps', max_callee_steps + 1)
        how1 = g.pick('how1', ['call', 'waito', 'waitn'])
        how2 = g.pick('how2', ['waito', 'waitn'])

        class Comp(BaseComponent):
            @handler('A')
            def on_a(self, event, tag):
                ev = st['ev']
                st['suspend_at'] = st['gen_events']
                r = res[1]
                try:
                    if how1 == 'call':
                        x = yield self.call(ev, timeout=T)
                    elif how1 == 'waito':
                        self.fire(ev)
                        x = yield self.wait(ev, timeout=T)
                    else:
                        self.fire(ev)
                        x = yield self.wait('B', timeout=T)
                    r['resumed'] += 1
                    r['outcome'] = ('value', x.value if x is not None else None, ('b-end',) in log)
                except M.TimeoutError:
                    r['resumed'] += 1
                    r['outcome'] = ('timeout', st['gen_events'] - st['suspend_at'])
                yield ('a', 'done')

            @handler('A2')
            def on_a2(self, event, tag):
                r = res[2]
                if how2 == 'waito':
                    x = yield self.wait(st['ev'])
                else:
                    x = yield self.wait('B')
                r['resumed'] += 1
                r['outcome'] = ('value', x.value if x is not None else None, ('b-end',) in log)
                yield ('a2', 'done')

            @handler('B')
            def on_b(self, event, tag):
                for i in range(k):
                    yield None
                log.append(('b-end',))
                yield ('b', 'result')

            @handler('generate_events', priority=5)
            def on_ge(self, event):
                st['gen_events'] += 1

            @handler('exception', channel='*')
            def on_exc(self, etype, evalue, tb, handler=None, fevent=None):
                log.append(('exception', repr(evalue)))

        comp = Comp()
        comp.flush()
        before = snapshot_handlers(comp)
        comp._running = True
        import threading
        comp._executing_thread = threading.current_thread()
        # the waiter without timeout is suspended first (steps of generator handlers started in the same tick run in no
        # particular order, and waiting for an event that is already over is not what is being checked)
        st['ev'].channels = ('*',)
        va2 = comp.fire(A2('r1'))
        comp.tick(0)
        comp.tick(0)
        va = comp.fire(A('r0'))
        for _ in range(max_ticks):
            comp.tick(0)
        comp._running = False
        comp._executing_thread = None
        w = {'how1': how1, 'how2': how2}
        detail = 'how1=%s how2=%s k=%d T=%s outcomes=%s log=%s' % (how1, how2, k, g.value_of(T), {i: r['outcome'] for i, r in res.items()}, log)
        g.note({'how1': how1, 'how2': how2, 'callee_steps': k, 'T': g.value_of(T)})
        if [x for x in log if x[0] == 'exception']:
            g.fail('unexpected-exception', w, detail)
            return
        for i in (1, 2):
            r = res[i]
            wi = dict(w)
            wi['waiter'] = i
            if r['resumed'] == 0:
                g.fail('caller-never-resumed', wi, detail)
                return
            if r['resumed'] > 1:
                g.fail('caller-resumed-twice', wi, detail)
                return
            if r['outcome'][0] == 'timeout':
                if i == 2:
                    g.fail('timeout-without-timeout', wi, detail)
                    return
                g.check(g.And(T >= 0, T <= r['outcome'][1]), 'timeout-too-early', wi, detail)
            else:
                if r['outcome'][1] != ('b', 'result'):
                    g.fail('received-wrong-result', wi, detail)
                if not r['outcome'][2]:
                    g.fail('resumed-before-callee-finished', wi, detail)
        if va.value != ('a', 'done') or va2.value != ('a2', 'done'):
            g.fail('root-value', w, detail + ' va=%r va2=%r' % (va.value, va2.value))
        if comp._tasks:
            g.fail('tasks-left', w, detail)
        after = snapshot_handlers(comp)
        if after != before:
            extra = {kk: [getattr(h, '__name__', '?') for h in v - before.get(kk, set())] for kk, v in after.items() if v - before.get(kk, set())}
            w2 = dict(w)
            w2['timed_out'] = res[1]['outcome'][0] == 'timeout'
            g.fail('handlers-left', w2, 'extra=%s %s' % (extra, detail))
    return harness


ENC = [M.Manager.waitEvent, M.Manager.callEvent, M.Manager.processTask, M.Manager.registerTask, M.Manager.unregisterTask,
       M.Manager._eventDone, M.Manager.tick, M.Manager.addHandler, M.Manager.removeHandler]


def canaries():
    from harness.common import mutate
    return [
        ('done-handler-not-removed', 'programs', lambda: mutate(M.Manager, 'waitEvent', "yield state\n\n    self.removeHandler(_on_done_handler, '%s_done' % event_name)", "yield state\n"), ['handlers-left']),
        ('timeout-off-by-one', 'timeout', lambda: mutate(M.Manager, 'waitEvent', 'if state.timeout == 0:', 'if state.timeout <= 2:'), ['timeout-too-early']),
        ('done-fired-before-generators', 'programs', lambda: mutate(M.Manager, '_eventDone', 'if event.waitingHandlers:\n        return', 'if event.waitingHandlers and not event.alert_done:\n        return'), None),
        ('event-handler-not-removed', 'programs', lambda: mutate(M.Manager, 'waitEvent', 'self.removeHandler(_on_event_handler, event_name)\n            event.alert_done = True', 'event.alert_done = True'), ['handlers-left']),
        ('callvalue-waiting-count', 'nested', lambda: mutate(M.Manager, 'processTask', 'event.waitingHandlers -= 1\n                if value is not None:', 'if value is not None:'), None),
    ]


def parts(tier):
    if tier == 'quick':
        return [
            Part('programs', make_harness(steps_a=3, steps_b=1, steps_c=1), bounds={'steps_A': 3, 'steps_B': 1, 'steps_C': 1, 'roots': 1},
                 encoded=ENC, budget_s=80),
            Part('nested', make_harness(steps_a=1, steps_b=2, steps_c=2, c2_may_raise=True), bounds={'steps_A': 1, 'steps_B': 2, 'steps_C': 2, 'roots': 1, 'second_handler_of_C': 'returns or raises'},
                 encoded=ENC, budget_s=80),
            Part('two-roots', make_harness(steps_a=1, steps_b=1, steps_c=1, roots=2), bounds={'steps_A': 1, 'steps_B': 1, 'steps_C': 1, 'roots': 2},
                 encoded=ENC, budget_s=80),
            Part('effects-after-resume', make_harness(steps_a=2, steps_b=1, steps_c=1, chain=True), bounds={'steps_A': 2, 'steps_B': 1, 'steps_C': 1, 'roots': 1,
                 'extra_action_of_A': 'fire a chain of 4 events and go on (before or after a call/wait)'}, encoded=ENC, budget_s=80),
            Part('timeout', make_timeout_harness(), bounds={'T': '[-1,3] (z3 Int)', 'callee_yields': '0..4', 'how': ['call', 'wait by object', 'wait by name', 'wait by name, never fired']},
                 encoded=[M.Manager.waitEvent, M.Manager.processTask, M.Manager.tick], budget_s=60),
            Part('two-waiters', make_two_waiters_harness(), bounds={'T': '[-1,3] (z3 Int)', 'callee_yields': '0..3', 'waiters': 'one with timeout T (call / wait by object / by name), one without (by object / by name), on the same event'},
                 encoded=[M.Manager.waitEvent, M.Manager.processTask, M.Manager.tick], budget_s=60),
        ]
    return [
        Part('two-waiters', make_two_waiters_harness(max_callee_steps=6, max_ticks=30), bounds={'T': '[-1,3] (z3 Int)', 'callee_yields': '0..6', 'waiters': 'one with timeout T, one without, on the same event'},
             encoded=ENC, budget_s=600),
        Part('programs', make_harness(steps_a=3, steps_b=1, steps_c=1), bounds={'steps_A': 3, 'steps_B': 1, 'steps_C': 1, 'roots': 1}, encoded=ENC, budget_s=1200),
        Part('programs-deep', make_harness(steps_a=2, steps_b=2, steps_c=1), bounds={'steps_A': 2, 'steps_B': 2, 'steps_C': 1, 'roots': 1}, encoded=ENC, budget_s=1200),
        Part('effects-after-resume', make_harness(steps_a=3, steps_b=1, steps_c=1, chain=True), bounds={'steps_A': 3, 'steps_B': 1, 'steps_C': 1, 'roots': 1,
             'extra_action_of_A': 'fire a chain of 4 events and go on'}, encoded=ENC, budget_s=1200),
        Part('nested', make_harness(steps_a=1, steps_b=2, steps_c=2, c2_may_raise=True), bounds={'steps_A': 1, 'steps_B': 2, 'steps_C': 2, 'roots': 1, 'second_handler_of_C': 'returns or raises'},
             encoded=ENC, budget_s=600),
        Part('two-roots', make_harness(steps_a=1, steps_b=2, steps_c=1, roots=2), bounds={'steps_A': 1, 'steps_B': 2, 'steps_C': 1, 'roots': 2}, encoded=ENC, budget_s=1200),
        Part('timeout', make_timeout_harness(max_callee_steps=6, max_ticks=24), bounds={'T': '[-1,3] (z3 Int)', 'callee_yields': '0..6'},
             encoded=[M.Manager.waitEvent, M.Manager.processTask, M.Manager.tick], budget_s=600),
    ]


if __name__ == '__main__':
    sys.exit(run_property(sys.modules[__name__]))
