"""C10 -- pollers report exactly the registered-and-ready descriptors; all three agree.

Real code: BasePoller.addReader/addWriter/removeReader/removeWriter/discard/isReading/isWriting/getTarget,
Select._generate_events/_preenDescriptors, Poll/EPoll._updateRegistration/_generate_events/_process and their
registration overrides.  The kernel is the stub of harness/stubkernel.py.  Choices: the registration history
(incl. close without discard and re-opening a descriptor that gets the same number) and, per poll iteration, which
descriptors are readable / writable.
"""

import os
import sys

sys.path.insert(0, os.path.dirname(os.path.dirname(os.path.abspath(__file__))))

from circuits.core import pollers as PL  # noqa: E402
from circuits.core.components import BaseComponent  # noqa: E402
from circuits.core.events import generate_events  # noqa: E402
from circuits.core.handlers import handler  # noqa: E402

from harness.common import Part, run_property  # noqa: E402
from harness.stubkernel import POLLIN, POLLOUT, StubKernel  # noqa: E402
from pathex import PathEnd  # noqa: E402

PROPERTY = 'C10'
EXPLANATION = ('C10: a history of addReader/addWriter/removeReader/removeWriter/discard/close/re-open operations over a pool of '
               'descriptors is drawn for each of Select, Poll and EPoll running on a stub kernel; in every poll iteration the set '
               'of readable/writable descriptors is a choice.  The _read/_write events fired (and their target channel) are '
               'compared with a set model, the kernel registration table with the interest sets, and the three pollers with '
               'each other.')
ASSUMPTIONS = [
    'the stub kernel implements the Linux registration semantics of select/poll/epoll documented in harness/stubkernel.py '
    '(validated against the real kernel on fixed histories by tools/validate_stubkernel.py)',
    'a descriptor is always registered by the same source component (the target channel table has one entry per descriptor)',
    'a `_disconnect` notification for a descriptor that was closed without being discarded is tolerated (it is how the poller '
    'cleans up); read/write readiness events for it are not',
]
OUTSIDE = ['KQueue', 'error bits (exercised through the socket components in C12)', 'the control pipe wake-up (C03)']


def make_harness(poller_name, n_ops, n_fds=2, iterations_in_history=True, hangups=False):
    def harness(g):
        kernel = StubKernel(first_free=1000)
        saved = PL.select
        PL.select = kernel
        poller = None
        try:
            poller = getattr(PL, poller_name)()
            body(g, kernel, poller)
        finally:
            PL.select = saved
            if poller is not None:
                for fdn in (poller._ctrl_recv, poller._ctrl_send):
                    try:
                        os.close(fdn)
                    except Exception:
                        pass

    def body(g, kernel, poller):
        log = []

        class Src(BaseComponent):
            pass

        class Obs(BaseComponent):
            channel = '*'

            @handler('_read', '_write', '_disconnect', '_error', channel='*')
            def on_ev(self, event, fd, *rest):
                log.append((event.name, fd, tuple(event.channels)))

            @handler('exception', channel='*')
            def on_exc(self, etype, evalue, tb, handler=None, fevent=None):
                log.append(('exception', repr(evalue), ()))

        root = BaseComponent()
        Obs().register(root)
        poller.register(root)
        srcs = [Src(channel='src0').register(root), Src(channel='src1').register(root)]
        root.flush()
        root.flush()
        del log[:]
        fds = []           # every descriptor object ever opened
        live = []          # index -> current object of slot i (None when closed)
        for i in range(n_fds):
            o = kernel.new_fd('f%d' % i)
            fds.append(o)
            live.append(o)
        reg_r, reg_w = {}, {}          # ghost: object -> channel
        zombies = set()                # closed without discard while registered
        history = []
        generation = [0] * n_fds

        def src_of(slot):
            return srcs[slot % 2]

        def fail(clause, w, detail):
            g.fail(clause, w, '%s; poller=%s history=%s' % (detail, poller_name, history))
            raise PathEnd()

        def check_tables(where):
            # kernel registration mirrors the interest sets (Poll / EPoll); only for descriptors that are open
            tab = None
            pl = getattr(poller, '_poller', None)
            if pl is not None and hasattr(pl, 'table'):
                tab = {}
                for n, v in pl.table.items():
                    tab[n] = v[1] if isinstance(v, tuple) else v
            for o in fds:
                if o.closed:
                    continue
                want = (POLLIN if o in reg_r else 0) | (POLLOUT if o in reg_w else 0)
                if tab is not None:
                    have = tab.get(o.no, 0)
                    # a zombie may still hold this number in a user-space poll table: that is judged by the events
                    if have != want and not any(z.no == o.no for z in zombies):
                        fail('kernel-registration-mismatch', {'poller': poller_name}, '%s: %r kernel mask %s, interest %s' % (where, o, have, want))
                if poller.isReading(o) != (o in reg_r) or poller.isWriting(o) != (o in reg_w):
                    fail('interest-set-mismatch', {'poller': poller_name}, '%s: %r isReading=%s isWriting=%s, model %s/%s' % (
                        where, o, poller.isReading(o), poller.isWriting(o), o in reg_r, o in reg_w))

        def iteration(step, pattern='all'):
            # readiness of every open descriptor in this iteration
            for slot, o in enumerate(live):
                if o is None:
                    continue
                o.readable = pattern in ('all', 'read-only', 'hup+data')
                o.writable = pattern in ('all', 'write-only')
                # the peer hung up: with unread data still pending (`hup+data`) or with nothing left (`hup`)
                o.hup = pattern in ('hup+data', 'hup')
            preen_round = poller_name == 'Select' and bool(zombies)
            ev = generate_events(root._lock, 0)
            mark = len(log)
            try:
                poller._generate_events(ev)
            except Exception as e:
                # under the dispatcher this becomes an `exception` event in every round, and nobody gets readiness events
                fail('poller-raised', {'poller': poller_name, 'closed_without_discard': bool(zombies)}, 'iteration %d: %r' % (step, e))
            for _ in range(4):
                if not len(root._queue):
                    break
                root.flush()
            got = log[mark:]
            exc = [x for x in got if x[0] == 'exception']
            if exc:
                fail('unexpected-exception', {'poller': poller_name}, str(exc[:2]))
            expected = []
            expected_disc = []
            for o in fds:
                if o.closed:
                    continue
                if pattern == 'hup':
                    # nothing left to read: poll/epoll report the hang-up itself (whatever the mask), the poller turns it
                    # into _disconnect and forgets the descriptor; select reports it readable (recv() will return b'')
                    if poller_name == 'Select':
                        if o in reg_r:
                            expected.append(('_read', o, (reg_r[o],)))
                    elif o in reg_r or o in reg_w:
                        expected_disc.append(o)
                    continue
                if pattern == 'hup+data' and o not in reg_r and o in reg_w and poller_name != 'Select':
                    # not interested in reading: all the kernel has to say about this descriptor is the hang-up
                    expected_disc.append(o)
                    continue
                if o in reg_r and o.readable:
                    expected.append(('_read', o, (reg_r[o],)))
                if o in reg_w and o.writable:
                    expected.append(('_write', o, (reg_w[o],)))
            bad_closed = [x for x in got if x[0] in ('_read', '_write') and x[1].closed]
            if bad_closed:
                w = {'poller': poller_name, 'closed_without_discard': any(x[1] in zombies for x in bad_closed),
                     'number_reused': any(any((not o.closed) and o.no == x[1].no for o in fds) for x in bad_closed)}
                fail('event-for-closed-descriptor', w, 'events %s' % (bad_closed,))
            got_rw = [x for x in got if x[0] in ('_read', '_write')]
            if preen_round and not got_rw:
                # select() refused the set because of a descriptor that was closed without being discarded; the poller
                # weeds it out and reports nothing in this round (level-triggered: the next round must be exact)
                zombies.clear()
                return 'preen'
            key = lambda x: (x[0], x[1].label, x[2])  # noqa: E731
            if sorted(got_rw, key=key) != sorted(expected, key=key):
                missing = [x for x in expected if x not in got_rw]
                extra = [x for x in got_rw if x not in expected]
                clause = 'readiness-event-missing' if missing else ('readiness-event-duplicated' if all(x in expected for x in extra) else 'readiness-event-spurious')
                wrongchan = [x for x in extra if any(x[0] == y[0] and x[1] is y[1] for y in missing)]
                if wrongchan:
                    clause = 'readiness-event-wrong-channel'
                w = {'poller': poller_name, 'zombie_number_shared': any(any(z.no == x[1].no for z in zombies) for x in missing + extra)}
                fail(clause, w, 'iteration %d: got %s expected %s' % (step, got_rw, expected))
            got_disc = [x[1] for x in got if x[0] == '_disconnect' and x[1] not in zombies]
            if expected_disc or (pattern in ('hup', 'hup+data') and got_disc):
                if sorted(o.label for o in got_disc) != sorted(o.label for o in expected_disc):
                    # with data still pending the read events come first: a _disconnect in the same round cuts the stream short
                    fail('hangup-disconnect-mismatch', {'poller': poller_name, 'pattern': pattern}, 'iteration %d: _disconnect for %s, expected for %s' % (step, got_disc, expected_disc))
                for o in expected_disc:
                    reg_r.pop(o, None)
                    reg_w.pop(o, None)
            for o in fds:
                o.hup = False
            for x in got:
                if x[0] == '_disconnect' and x[1] in expected_disc:
                    continue
                if x[0] == '_disconnect':
                    if x[1] not in zombies:
                        fail('spurious-disconnect', {'poller': poller_name}, str(x))
                    zombies.discard(x[1])
            return [(x[0], x[1].label, x[2]) for x in got_rw]

        outputs = []
        for step in range(n_ops):
            ops = []
            for slot, o in enumerate(live):
                if o is None:
                    ops.append(('open', slot))
                    continue
                if o not in reg_r:
                    ops.append(('addReader', slot))
                else:
                    ops.append(('removeReader', slot))
                if o not in reg_w:
                    ops.append(('addWriter', slot))
                else:
                    ops.append(('removeWriter', slot))
                ops.append(('discard', slot))
                ops.append(('close', slot))
            ops.append(('poll', 'all'))
            ops.append(('poll', 'read-only'))
            ops.append(('poll', 'write-only'))
            if hangups:
                ops.append(('poll', 'hup+data'))
                ops.append(('poll', 'hup'))
            ops.append(('stop',))
            op = g.pick('op%d' % step, ops)
            history.append(op)
            if op[0] == 'stop':
                break
            if op[0] == 'poll':
                outputs.append(iteration(step, op[1]))
                continue
            slot = op[1]
            o = live[slot]
            if op[0] == 'open':
                generation[slot] += 1
                o = kernel.new_fd('f%d.%d' % (slot, generation[slot]))
                fds.append(o)
                live[slot] = o
            elif op[0] == 'addReader':
                poller.addReader(src_of(slot), o)
                reg_r[o] = src_of(slot).channel
            elif op[0] == 'addWriter':
                poller.addWriter(src_of(slot), o)
                reg_w[o] = src_of(slot).channel
            elif op[0] == 'removeReader':
                poller.removeReader(o)
                reg_r.pop(o, None)
            elif op[0] == 'removeWriter':
                poller.removeWriter(o)
                reg_w.pop(o, None)
            elif op[0] == 'discard':
                poller.discard(o)
                reg_r.pop(o, None)
                reg_w.pop(o, None)
            elif op[0] == 'close':
                if o in reg_r or o in reg_w:
                    zombies.add(o)
                reg_r.pop(o, None)
                reg_w.pop(o, None)
                o.close()
                live[slot] = None
            check_tables('after %s' % (op,))
        # final iteration: everything that is open and registered is made ready
        r = iteration(n_ops)
        if r == 'preen':
            r = iteration(n_ops + 1)
        outputs.append(r)
        check_tables('at end')
        g.note({'poller': poller_name, 'history': [list(map(str, h)) for h in history], 'events': outputs[-2:]})
    return harness


ENC_BASE = [PL.BasePoller.addReader, PL.BasePoller.addWriter, PL.BasePoller.discard, PL.BasePoller.isReading, PL.BasePoller.getTarget]
ENC = {
    'Select': ENC_BASE + [PL.Select._generate_events],
    'Poll': ENC_BASE + [PL.Poll._updateRegistration, PL.Poll._generate_events, PL.Poll._process],
    'EPoll': ENC_BASE + [PL.EPoll._updateRegistration, PL.EPoll._generate_events, PL.EPoll._process],
}


def canaries():
    from harness.common import mutate
    return [
        ('target-dropped-with-other-role', 'Select', lambda: mutate(PL.BasePoller, 'removeReader', 'if not (fd in self._read or fd in self._write)', 'if not (fd in self._read and fd in self._write)'), None),
        ('poll-mask-not-recomputed', 'Poll', lambda: mutate(PL.Poll, '_updateRegistration', 'if fd in self._write:\n        mask = mask | select.POLLOUT', 'if fd in self._write and not mask:\n        mask = mask | select.POLLOUT'), None),
        ('epoll-no-iswriting-filter', 'EPoll', lambda: mutate(PL.EPoll, '_process', 'if event & select.EPOLLOUT:', 'if event & select.EPOLLIN:\n                self.fire(_write(fd), self.getTarget(fd))\n            if event & select.EPOLLOUT:'), None),
        ('select-no-isreading-filter', 'Select', lambda: mutate(PL.Select, '_generate_events', 'for sock in w:\n        if self.isWriting(sock):', 'for sock in r:\n        if self.isWriting(sock):'), None),
        ('epoll-map-not-updated', 'EPoll', lambda: mutate(PL.EPoll, '_updateRegistration', 'self._map[fileno] = fd', 'self._map.setdefault(fileno, fd)'), None),
    ]


def parts(tier):
    n = 4 if tier == 'quick' else 6
    out = []
    for name in ('Select', 'Poll', 'EPoll'):
        out.append(Part(name, make_harness(name, n), bounds={'poller': name, 'history_length': n, 'descriptors': 2,
                        'ops': 'addReader/addWriter/removeReader/removeWriter/discard/close/open(re-use of number)/poll iteration with chosen readiness'},
                        encoded=ENC[name], budget_s=80 if tier == 'quick' else 1500))
    for name in ('Select', 'Poll', 'EPoll'):
        nh, nf = (4, 1) if tier == 'quick' else (5, 2)
        out.append(Part('hangup-' + name, make_harness(name, nh, n_fds=nf, hangups=True),
                        bounds={'poller': name, 'history_length': nh, 'descriptors': nf,
                                'ops': 'as above plus poll iterations in which the peer has hung up, with or without unread data'},
                        encoded=ENC[name], budget_s=60 if tier == 'quick' else 900))
    return out


if __name__ == '__main__':
    # translation validation of the stub kernel against the real one (fixed histories); disagreement = harness error
    sys.path.insert(0, os.path.join(os.path.dirname(os.path.dirname(os.path.abspath(__file__))), 'tools'))
    import validate_stubkernel
    if validate_stubkernel.main() != 0:
        print('HARNESS-ERROR stub kernel disagrees with the real kernel')
        sys.exit(3)
    sys.exit(run_property(sys.modules[__name__]))
