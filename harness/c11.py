"""C11 -- stream writes arrive in order, each byte once, and close waits for the buffer.

Real code: Server.write/_on_write/_write/close/_close, Client.write/__on_write/_write/close/_close,
File.write/__on_write/_write/close/_close and the BasePoller writer bookkeeping they use.
Data: the number of bytes each send()/os.write() accepts (z3 Int, 0 <= k <= len).  Choices: errno faults, the
operation history (write payload i / close / writability event).
"""

import errno
import os
import sys

sys.path.insert(0, os.path.dirname(os.path.dirname(os.path.abspath(__file__))))

from circuits.core import pollers as PL  # noqa: E402
from circuits.core.components import BaseComponent  # noqa: E402
from circuits.core.handlers import handler  # noqa: E402
from circuits.io import file as FI  # noqa: E402
from circuits.net import sockets as SK  # noqa: E402
from circuits.net.events import close, write  # noqa: E402

from harness.common import Part, run_property  # noqa: E402
from pathex import PathEnd  # noqa: E402

PROPERTY = 'C11'
EXPLANATION = ('C11: a history of write/close requests and writability events is drawn for a server-side connection, a client '
               'and a File; every send()/os.write() either accepts a symbolic number of bytes k (z3 Int, 0<=k<=len) or raises an '
               'errno from the transient or fatal set.  The bytes accepted by the scripted endpoint are compared with the '
               'payloads, and the position of close()/shutdown() and the error/disconnect events are checked.')
ASSUMPTIONS = [
    'send()/os.write() accept a prefix of the data or raise OSError (BSD socket contract)',
    'writability events are delivered only while the endpoint is registered as a writer with the (real) poller component; the '
    'kernel side of the poller is not involved (C10/C12)',
    'after the scripted faults are exhausted the OS accepts everything (drain phase), so that "eventually written" is decidable',
]
OUTSIDE = ['payloads longer than 3 bytes (the only size-dependent branch in the encoded functions is nbytes < len(data))',
           'TLS sockets, UDP endpoints']

TRANSIENT = [errno.EAGAIN, errno.EINTR, errno.ENOBUFS]
FATAL = [errno.EPIPE, errno.ECONNRESET]


class Script:
    """decides the outcome of every send/os.write; shared by the socket and fd doubles"""

    def __init__(self, g, max_faulty):
        self.g = g
        self.n = 0
        self.max_faulty = max_faulty
        self.accepted = bytearray()
        self.closed = False
        self.shutdown_at = None       # number of accepted bytes when close()/shutdown() happened
        self.send_after_close = False
        self.fatal = None
        self.transient_seen = []
        self.calls = []

    def send(self, data):
        g = self.g
        if self.closed:
            self.send_after_close = True
            raise OSError(errno.EBADF, 'closed')
        if self.fatal is not None:
            # a broken connection stays broken
            self.calls.append(('raise', 'EPIPE'))
            raise OSError(errno.EPIPE, os.strerror(errno.EPIPE))
        self.n += 1
        if self.n > self.max_faulty:
            k = len(data)
            self.accepted += data
            self.calls.append(('all', len(data)))
            return k
        kind = g.pick('send%d' % self.n, ['accept', 'transient', 'fatal'])
        if kind == 'accept':
            k = g.int('k%d' % self.n, 0, len(data))
            kk = int(k) if not isinstance(k, int) else k    # concretised by the slice in the code under test anyway
            self.accepted += data[:kk]
            self.calls.append(('accept', kk, len(data)))
            return k
        if kind == 'transient':
            e = g.pick('terr%d' % self.n, TRANSIENT)
            self.transient_seen.append(e)
            self.calls.append(('raise', errno.errorcode[e]))
            raise OSError(e, os.strerror(e))
        e = g.pick('ferr%d' % self.n, FATAL)
        self.fatal = e
        self.calls.append(('raise', errno.errorcode[e]))
        raise OSError(e, os.strerror(e))

    def close(self):
        if not self.closed:
            self.closed = True
            self.shutdown_at = len(self.accepted)


class SockDouble:
    def __init__(self, script, no=90):
        self.script = script
        self._no = no

    def send(self, data):
        return self.script.send(bytes(data))

    eof = False

    def recv(self, n):
        if self.script.closed:
            raise OSError(errno.EBADF, 'closed')
        if self.eof:
            return b''      # the peer has shut down its sending side (it may well go on reading)
        raise OSError(errno.EWOULDBLOCK, 'nothing to read')

    def shutdown(self, how):
        self.script.close()

    def close(self):
        self.script.close()

    def setblocking(self, flag):
        pass

    def getpeername(self):
        return ('10.0.0.1', 1234)

    def getsockname(self):
        return ('10.0.0.2', 80)

    def fileno(self):
        return -1 if self.script.closed else self._no


class FdDouble:
    mode = 'w'
    name = 'double'
    encoding = 'utf-8'

    def __init__(self, script):
        self.script = script

    @property
    def closed(self):
        return self.script.closed

    def fileno(self):
        return 91

    def close(self):
        self.script.close()


PAYLOADS = [b'abc', b'd', b'', b'efg']
# File takes text as well: encoded size and character count differ
PAYLOADS_TEXT = [b'abc', 'd\u00e9\u20ac', b'', 'f\u00fcg']


def make_harness(kind, n_ops, max_faulty):
    def harness(g):
        script = Script(g, max_faulty)
        log = []

        class Obs(BaseComponent):
            channel = '*'

            @handler('error', channel='*')
            def on_error(self, *args):
                log.append(('error',) + tuple(a.errno if isinstance(a, OSError) else None for a in args[-1:]))

            @handler('disconnect', 'disconnected', 'closed', channel='*')
            def on_gone(self, event, *args):
                log.append((event.name,))

            @handler('exception', channel='*')
            def on_exc(self, etype, evalue, tb, handler=None, fevent=None):
                log.append(('exception', repr(evalue)))

        root = BaseComponent()
        Obs().register(root)
        poller = PL.Select().register(root)
        saved_fd_write = FI.fd_write
        try:
            if kind == 'server':
                ep = SK.TCPServer(('127.0.0.1', 0)).register(root)
                root.flush()
                sock = SockDouble(script)
                ep._on_accept_done(sock)
                target = sock

                def do_write(data):
                    root.fire(write(sock, data), ep.channel)

                nclose = [0]

                def do_close():
                    # close of this connection, or of the whole server (no argument): both must wait for the buffer
                    nclose[0] += 1
                    if g.flag('serverwide_close%d' % nclose[0]):
                        root.fire(close(), ep.channel)
                    else:
                        root.fire(close(sock), ep.channel)

                def buffered():
                    return sum(len(x) for x in ep._buffers.get(sock, ())) if sock in ep._buffers else 0
            elif kind == 'client':
                ep = SK.TCPClient().register(root)
                root.flush()
                sock = SockDouble(script)
                try:
                    ep._sock.close()
                except Exception:
                    pass
                ep._sock = sock
                ep._connected = True
                target = sock

                def do_write(data):
                    root.fire(write(data), ep.channel)

                def do_close():
                    root.fire(close(), ep.channel)

                def buffered():
                    return sum(len(x) for x in ep._buffer)
            else:
                fd = FdDouble(script)
                FI.fd_write = lambda fileno, data: script.send(data)
                ep = FI.File(fd, 'w')
                ep._fd = fd           # what _on_open would do for a file object; open()/fcntl are not the subject
                ep._mode = 'w'
                ep.register(root)
                root.flush()
                ep._poller = poller
                target = fd

                def do_write(data):
                    root.fire(write(data), ep.channel)

                def do_close():
                    root.fire(close(), ep.channel)

                def buffered():
                    return sum(len(x) for x in ep._buffer)
            for _ in range(4):
                root.flush()
            del log[:]
            body(g, script, log, root, poller, ep, target, do_write, do_close, buffered)
        finally:
            FI.fd_write = saved_fd_write
            try:
                if kind == 'server' and ep._sock is not None:
                    ep._sock.close()
            except Exception:
                pass
            for fdn in (poller._ctrl_recv, poller._ctrl_send):
                try:
                    os.close(fdn)
                except Exception:
                    pass

    def settle(root):
        for _ in range(6):
            if not len(root._queue):
                break
            root.flush()

    def body(g, script, log, root, poller, ep, target, do_write, do_close, buffered):
        written = bytearray()          # concatenation of payloads requested so far
        written_before_close = None
        history = []
        n_payload = 0
        close_requested = False
        closes = 0

        def check_prefix(where):
            if bytes(script.accepted) != bytes(written[:len(script.accepted)]):
                g.fail('bytes-reordered-or-repeated', {'kind': kind}, '%s: accepted %r, written %r; history=%s sends=%s' % (where, bytes(script.accepted), bytes(written), history, script.calls))
                raise PathEnd()

        for step in range(n_ops):
            ops = []
            if n_payload < len(PAYLOADS) and not close_requested:
                ops.append('write')
            if not close_requested:
                ops.append('close')
            elif closes < 2 and not script.closed:
                ops.append('close-again')     # a second close request while the first one is still waiting for the buffer
            if poller.isWriting(target) and not script.closed:
                ops.append('writable')
            if kind in ('server', 'client') and not close_requested and not script.closed:
                ops.append('peer-eof')
            ops.append('stop')
            op = g.pick('op%d' % step, ops)
            history.append(op)
            if op == 'stop':
                break
            if op == 'write':
                data = (PAYLOADS_TEXT if kind == 'file' else PAYLOADS)[n_payload]
                n_payload += 1
                written += data if isinstance(data, bytes) else data.encode('utf-8')
                do_write(data)
            elif op == 'peer-eof':
                # the peer half-closes: the endpoint reads end-of-file and closes, which like any close waits for the buffer
                close_requested = True
                written_before_close = len(written)
                target.eof = True
                root.fire(PL._read(target), ep.channel)
            elif op == 'close-again':
                closes += 1
                do_close()
            elif op == 'close':
                closes += 1
                close_requested = True
                written_before_close = len(written)
                do_close()
            else:
                root.fire(PL._write(target), ep.channel)
            settle(root)
            check_prefix('after %s' % op)
        # drain phase: the OS accepts everything from now on
        script.max_faulty = 0
        rounds = 0
        while poller.isWriting(target) and not script.closed and rounds < 12:
            root.fire(PL._write(target), ep.channel)
            settle(root)
            rounds += 1
        settle(root)
        check_prefix('after drain')
        w = {'kind': kind, 'transient_fault': bool(script.transient_seen), 'fatal_fault': script.fatal is not None,
             'close_requested': close_requested}
        detail = 'history=%s sends=%s accepted=%r written=%r log=%s' % (history, script.calls, bytes(script.accepted), bytes(written), log)
        g.note({'kind': kind, 'history': history, 'sends': [list(map(str, c)) for c in script.calls][:8]})
        if [x for x in log if x[0] == 'exception']:
            g.fail('unexpected-exception', w, detail)
            raise PathEnd()
        if script.send_after_close:
            g.fail('send-after-close', w, detail)
        if script.fatal is not None:
            if not [x for x in log if x[0] in ('error', 'disconnect', 'disconnected', 'closed')]:
                g.fail('fatal-error-not-signalled', w, detail)
            return
        if rounds >= 12 and poller.isWriting(target) and not script.closed:
            g.fail('never-drains', w, detail)
            return
        # no fatal error: every byte requested (before the close request) must have been accepted, exactly once, in order
        expect = bytes(written)
        if bytes(script.accepted) != expect:
            g.fail('bytes-lost', w, detail)
        elif poller.isWriting(target) and not script.closed:
            g.fail('writer-interest-not-dropped', w, detail)
        if close_requested:
            if not script.closed:
                g.fail('close-never-happened', w, detail)
            elif script.shutdown_at is not None and script.shutdown_at < written_before_close and bytes(script.accepted) == expect:
                g.fail('closed-before-buffer-written', w, detail)
            elif script.shutdown_at is not None and script.shutdown_at < written_before_close:
                g.fail('closed-before-buffer-written', w, detail)
        else:
            if script.closed:
                g.fail('closed-without-request', w, detail)
    return harness


ENC_S = [SK.Server.write, SK.Server._on_write, SK.Server._write, SK.Server._read, SK.Server.close, SK.Server._close]
ENC_C = [SK.Client.write, SK.Client._write, SK.Client.close, SK.Client._close]
ENC_F = [FI.File.write, FI.File._write, FI.File.close, FI.File._close]


def canaries():
    from harness.common import mutate
    return [
        ('server-requeue-at-end', 'server', lambda: mutate(SK.Server, '_write', 'self._buffers[sock].appendleft(data[nbytes:])', 'self._buffers[sock].append(data[nbytes:])'), ['bytes-reordered-or-repeated']),
        ('server-tail-offset', 'server', lambda: mutate(SK.Server, '_write', 'data[nbytes:]', 'data[nbytes + 1:]'), ['bytes-lost', 'bytes-reordered-or-repeated']),
        ('server-close-does-not-wait', 'server', lambda: mutate(SK.Server, 'close', 'if not self._buffers.get(sock):', 'if True:'), ['bytes-lost', 'closed-before-buffer-written']),
        ('server-eintr-fatal-silent', 'server', lambda: mutate(SK.Server, '_write', 'if e.args[0] not in (EINTR, EWOULDBLOCK, ENOBUFS):', 'if e.args[0] not in (EWOULDBLOCK, ENOBUFS):'), ['bytes-lost', 'closed-without-request']),
        ('serverwide-close-does-not-wait', 'server', lambda: mutate(SK.Server, 'close', 'for sock in socks:\n        if not self._buffers.get(sock):\n            self._close(sock)', 'for client in socks:\n        if not self._buffers.get(sock):\n            self._close(client)\n            continue\n        sock = client\n        if False:\n            pass'), None),
        ('server-eof-closes-at-once', 'server', lambda: mutate(SK.Server, '_read', 'else:\n            self.close(sock)', 'else:\n            self._close(sock)'), ['bytes-lost', 'closed-before-buffer-written']),
        ('file-tail-counted-in-characters', 'file', lambda: mutate(FI.File, '_write', ['data = data.encode(self._encoding)', 'nbytes = fd_write(self._fd.fileno(), data)'], ['pass', "nbytes = fd_write(self._fd.fileno(), data if isinstance(data, bytes) else data.encode(self._encoding))"]), None),
        ('client-tail-dropped', 'client', lambda: mutate(SK.Client, '_write', 'self._buffer.appendleft(data[nbytes:])', 'pass'), ['bytes-lost']),
        ('file-writer-kept', 'file', lambda: mutate(FI.File, '_File__on_write', 'elif self._poller.isWriting(self._fd):', 'elif False:'), ['writer-interest-not-dropped', 'never-drains']),
    ]


def parts(tier):
    if tier == 'quick':
        n, f = 5, 3
    else:
        n, f = 7, 5
    return [
        Part('server', make_harness('server', n, f), bounds={'ops': n, 'faulty_sends': f, 'payloads': [p.decode() for p in PAYLOADS], 'errnos': 'EAGAIN EINTR ENOBUFS / EPIPE ECONNRESET'}, encoded=ENC_S, budget_s=80 if tier == 'quick' else 1200),
        Part('client', make_harness('client', n, f), bounds={'ops': n, 'faulty_sends': f}, encoded=ENC_C, budget_s=80 if tier == 'quick' else 1200),
        Part('file', make_harness('file', n, f), bounds={'ops': n, 'faulty_sends': f}, encoded=ENC_F, budget_s=80 if tier == 'quick' else 1200),
    ]


if __name__ == '__main__':
    sys.exit(run_property(sys.modules[__name__]))
