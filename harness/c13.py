"""C13 -- HTTP requests are parsed identically however the stream is segmented.

Real code: HttpParser.execute/_parse_firstline/_parse_request_line/_parse_response_line/_parse_headers/_parse_body/
_parse_chunk_size/_parse_trailers, web.http.HTTP._on_read (+ response path), protocols.http.HTTP._on_client_read.
Data: the cut positions (z3 Ints, concretised by the slices, i.e. enumerated by the solver).  Choices: the message
from a grammar.
"""

import os
import sys

sys.path.insert(0, os.path.dirname(os.path.dirname(os.path.abspath(__file__))))

from circuits.core.components import BaseComponent  # noqa: E402
from circuits.core.handlers import handler  # noqa: E402
from circuits.net.events import read  # noqa: E402
from circuits.protocols import http as PH  # noqa: E402
from circuits.web import http as WH  # noqa: E402
from circuits.web.parsers import http as HP  # noqa: E402

from harness.common import Part, run_property  # noqa: E402
from harness.httpkit import Rig  # noqa: E402
from pathex import PathEnd  # noqa: E402

PROPERTY = 'C13'
EXPLANATION = ('C13: a well-formed request (or, for the client component, response) is drawn from a grammar and delivered to the '
               'real HTTP component once in one piece and once cut at symbolic positions (every single cut, pairs of cuts, '
               'byte-at-a-time); the request events seen by handlers and the bytes written back must be identical.')
ASSUMPTIONS = [
    'requests are delivered as read events to the HTTP component; the TCP server is replaced by a sink that records write/close',
    'no pipelining: a further request on the connection is sent after the previous response',
    'the Date header of responses is masked before comparison (wall clock)',
]
OUTSIDE = ['messages outside the grammar (longer header sets, multipart bodies, gzip)', 'TLS']


def requests_grammar():
    """list of (label, [request bytes, ...]) -- a list with two entries is a keep-alive sequence"""
    out = []
    host = b'Host: example.org\r\n'
    out.append(('get-1.1', [b'GET / HTTP/1.1\r\n' + host + b'\r\n']))
    out.append(('get-query-1.1', [b'GET /a/b?x=1&y=2 HTTP/1.1\r\n' + host + b'X-A: 1\r\n\r\n']))
    out.append(('get-1.0', [b'GET /p HTTP/1.0\r\n\r\n']))
    out.append(('get-1.0-keepalive-hdrs', [b'GET /p HTTP/1.0\r\nConnection: keep-alive\r\nX-B: two words\r\n\r\n']))
    out.append(('continuation-header', [b'GET /c HTTP/1.1\r\n' + host + b'X-Long: first\r\n second\r\nX-C: 3\r\n\r\n']))
    out.append(('post-clen-5', [b'POST /post HTTP/1.1\r\n' + host + b'Content-Length: 5\r\n\r\nhello']))
    out.append(('post-clen-1', [b'POST /post HTTP/1.1\r\n' + host + b'Content-Length: 1\r\n\r\nx']))
    out.append(('post-clen-0', [b'POST /post HTTP/1.1\r\n' + host + b'Content-Length: 0\r\n\r\n']))
    out.append(('post-chunked-1', [b'POST /ch HTTP/1.1\r\n' + host + b'Transfer-Encoding: chunked\r\n\r\n5\r\nhello\r\n0\r\n\r\n']))
    out.append(('post-chunked-2-ext', [b'POST /ch HTTP/1.1\r\n' + host + b'Transfer-Encoding: chunked\r\n\r\n3;ext=1\r\nabc\r\n2\r\nde\r\n0\r\n\r\n']))
    out.append(('post-chunked-trailer', [b'POST /ch HTTP/1.1\r\n' + host + b'Transfer-Encoding: chunked\r\n\r\n2\r\nhi\r\n0\r\nX-T: v\r\n\r\n']))
    out.append(('head', [b'HEAD /h HTTP/1.1\r\n' + host + b'\r\n']))
    out.append(('keepalive-two-gets', [b'GET /one HTTP/1.1\r\n' + host + b'\r\n', b'GET /two?q=2 HTTP/1.1\r\n' + host + b'\r\n']))
    out.append(('keepalive-post-then-get', [b'POST /post HTTP/1.1\r\n' + host + b'Content-Length: 3\r\n\r\nabc', b'GET /after HTTP/1.1\r\n' + host + b'\r\n']))
    return out


def responses_grammar():
    out = []
    out.append(('200-clen', b'HTTP/1.1 200 OK\r\nContent-Type: text/plain\r\nContent-Length: 5\r\n\r\nhello'))
    out.append(('200-clen-0', b'HTTP/1.1 200 OK\r\nContent-Length: 0\r\n\r\n'))
    out.append(('204', b'HTTP/1.1 204 No Content\r\nX-A: 1\r\n\r\n'))
    out.append(('304', b'HTTP/1.1 304 Not Modified\r\nContent-Length: 0\r\nETag: "x"\r\n\r\n'))
    out.append(('200-chunked', b'HTTP/1.1 200 OK\r\nTransfer-Encoding: chunked\r\n\r\n3\r\nabc\r\n2\r\nde\r\n0\r\n\r\n'))
    out.append(('304-no-clen', b'HTTP/1.1 304 Not Modified\r\nETag: "y"\r\n\r\n'))
    out.append(('404-clen', b'HTTP/1.0 404 Not Found\r\nContent-Length: 2\r\n\r\nno'))
    return out


class App(BaseComponent):
    channel = 'web'

    @handler('request', priority=0.5)
    def _on_request(self, event, req, res, *a):
        body = req.body.read()
        return 'M=%s P=%s Q=%s V=%s B=%r' % (req.method, req.path, req.qs, req.protocol, body)


def mask_date(b):
    import re
    return re.sub(rb'Date: [^\r]*\r\n', b'Date: X\r\n', b)


def deliver(msgs, cutter):
    """run the message sequence through a fresh rig; cutter(i, msg) -> list of segments"""
    rig = Rig(App)
    sock = rig.new_sock()
    ok = True
    for i, m in enumerate(msgs):
        for seg in cutter(i, m):
            if seg:
                ok = rig.feed(sock, seg) and ok
    reqs = [{k: v for k, v in r.items() if k != 'sock'} for r in rig.requests]
    st = rig.conn(sock)
    return {'requests': reqs, 'out': mask_date(bytes(st['out'])), 'closed': st['closed'], 'exceptions': list(rig.exceptions), 'settled': ok}


def make_server_harness(mode):
    grammar = requests_grammar()

    def harness(g):
        label, msgs = g.pick('msg', grammar)
        ref = deliver(msgs, lambda i, m: [m])
        if ref['exceptions'] or not ref['requests'] or len(ref['requests']) != len(msgs):
            # the reference itself must be sane (one request event per request), otherwise the grammar entry is unusable
            g.fail('no-single-event-for-one-piece-delivery', {'message': label}, str(ref)[:600])
            raise PathEnd()
        which = g.choose('which', len(msgs)) if len(msgs) > 1 else 0
        L = len(msgs[which])
        if mode == 'single':
            c = g.int('cut', 1, L - 1)
            cuts = [int(c)]
        elif mode == 'pair':
            head_end = msgs[which].find(b'\r\n\r\n') + 4
            c1 = g.int('cut1', 1, min(L - 2, head_end))
            c2 = g.int('cut2', 2, L - 1)
            g.assume(c1 < c2)
            cuts = [int(c1), int(c2)]
        else:
            cuts = list(range(1, L))

        def cutter(i, m):
            if i != which:
                return [m]
            segs, prev = [], 0
            for c in cuts:
                segs.append(m[prev:c])
                prev = c
            segs.append(m[prev:])
            return segs
        got = deliver(msgs, cutter)
        w = {'mode': mode}
        m = msgs[which]
        where = 'cuts %s of %r' % (cuts, m[:max(cuts) + 6] if mode != 'bytewise' else m[:40])
        # classify the position of the first cut for the known-findings matcher
        first = cuts[0]
        line_end = m.find(b'\r\n')
        head_end = m.find(b'\r\n\r\n') + 4
        w['cut_in'] = 'request-line' if first <= line_end + 1 else ('headers' if first < head_end else 'body')
        w['between_cr_lf_of_request_line'] = (first == line_end + 1)
        w['chunked'] = b'chunked' in m
        g.note({'message': label, 'mode': mode, 'cuts': cuts if mode != 'bytewise' else 'every byte'})
        detail = '%s message=%s; one-piece: %s; segmented: %s' % (where, label, _short(ref), _short(got))
        if got['exceptions']:
            g.fail('exception-on-segmented-delivery', w, detail)
            raise PathEnd()
        if got['requests'] != ref['requests']:
            clause = 'request-lost' if len(got['requests']) < len(ref['requests']) else ('request-duplicated' if len(got['requests']) > len(ref['requests']) else 'request-differs')
            g.fail(clause, w, detail)
            raise PathEnd()
        if got['out'] != ref['out'] or got['closed'] != ref['closed']:
            g.fail('response-differs', w, detail)
    return harness


def _short(r):
    return {'requests': [(x['method'], x['path'], x['qs'], x['body']) for x in r['requests']], 'out': r['out'][:120], 'closed': r['closed'], 'exc': r['exceptions'][:1]}


def make_client_harness(mode):
    grammar = responses_grammar()

    def run(segs):
        root = BaseComponent()
        seen = []

        class Obs(BaseComponent):
            channel = 'web'

            @handler('response', priority=5)
            def _on_response(self, res):
                seen.append({'status': res.status, 'version': res.version, 'headers': sorted((k.lower(), v) for k, v in res.headers.items()), 'body': res.body.getvalue()})

            @handler('exception', channel='*')
            def _on_exc(self, etype, evalue, tb, handler=None, fevent=None):
                seen.append({'exception': repr(evalue)})
        PH.HTTP(channel='web').register(root)
        Obs().register(root)
        for _ in range(3):
            root.tick()
        for s in segs:
            if s:
                root.fire(read(s), 'web')
                for _ in range(6):
                    if not len(root._queue):
                        break
                    root.tick()
        return seen

    def harness(g):
        label, msg = g.pick('msg', grammar)
        ref = run([msg])
        if len(ref) != 1 or 'exception' in ref[0]:
            g.fail('no-single-event-for-one-piece-delivery', {'message': label}, str(ref)[:400])
            raise PathEnd()
        L = len(msg)
        if mode == 'single':
            c = int(g.int('cut', 1, L - 1))
            cuts = [c]
        else:
            cuts = list(range(1, L))
        segs, prev = [], 0
        for c in cuts:
            segs.append(msg[prev:c])
            prev = c
        segs.append(msg[prev:])
        got = run(segs)
        line_end = msg.find(b'\r\n')
        head_end = msg.find(b'\r\n\r\n') + 4
        w = {'mode': mode, 'side': 'client', 'cut_in': 'status-line' if cuts[0] <= line_end + 1 else ('headers' if cuts[0] < head_end else 'body'),
             'between_cr_lf_of_status_line': cuts[0] == line_end + 1, 'chunked': b'chunked' in msg}
        g.note({'message': label, 'cuts': cuts if mode == 'single' else 'every byte'})
        if got != ref:
            clause = 'response-lost' if len(got) < len(ref) else ('response-duplicated' if len(got) > len(ref) else 'response-differs')
            g.fail(clause, w, 'cuts %s message=%s one-piece=%s segmented=%s' % (cuts if mode == 'single' else 'bytewise', label, ref, got))
    return harness


ENC_S = [HP.HttpParser.execute, HP.HttpParser._parse_request_line, HP.HttpParser._parse_headers, HP.HttpParser._parse_body,
         HP.HttpParser._parse_chunk_size, WH.HTTP._on_read, WH.HTTP._on_response]
ENC_C = [HP.HttpParser.execute, HP.HttpParser._parse_response_line, HP.HttpParser._parse_headers, HP.HttpParser._parse_body,
         PH.HTTP._on_client_read]


def canaries():
    from harness.common import mutate
    return [
        ('headers-buffer-not-carried', 'server-single-cut', lambda: mutate(HP.HttpParser, '_parse_headers', 'if idx < 0:  # we don\'t have all headers', 'if idx < 0 and not self._buf.clear():'), None),
        ('body-rest-miscounted', 'server-single-cut', lambda: mutate(HP.HttpParser, '_parse_body', 'self._clen_rest -= len(body_part)', 'self._clen_rest = self._clen - len(body_part)'), None),
        ('chunk-rest-dropped', 'server-single-cut', lambda: mutate(HP.HttpParser, '_parse_body', 'if size is None or len(rest) < size:\n        return None', 'if size is None or len(rest) < size:\n        self._buf = [] if size is not None and len(rest) == size - 1 else self._buf\n        return None'), None),
    ]


def parts(tier):
    out = [
        Part('server-single-cut', make_server_harness('single'), bounds={'messages': [m[0] for m in requests_grammar()], 'cuts': 'every single cut position of each request'}, encoded=ENC_S, budget_s=85 if tier == 'quick' else 900),
        Part('server-bytewise', make_server_harness('bytewise'), bounds={'cuts': 'byte-at-a-time delivery of each request'}, encoded=ENC_S, budget_s=60),
        Part('client-single-cut', make_client_harness('single'), bounds={'messages': [m[0] for m in responses_grammar()], 'cuts': 'every single cut position of each response'}, encoded=ENC_C, budget_s=60),
        Part('client-bytewise', make_client_harness('bytewise'), bounds={'cuts': 'byte-at-a-time delivery of each response'}, encoded=ENC_C, budget_s=60),
    ]
    if tier == 'thorough':
        out.append(Part('server-cut-pairs', make_server_harness('pair'), bounds={'cuts': 'every pair of cuts with the first inside the head'}, encoded=ENC_S, budget_s=2400))
    return out


if __name__ == '__main__':
    sys.exit(run_property(sys.modules[__name__]))
