"""C05 -- `complete` fires exactly once, after the whole causal closure has drained.

Real code: Manager._fire (cause/effects linking), _dispatcher (cancelled skip, effects init), _eventDone
(cause-chain walk), processTask, tick.  Choices: the event tree grown lazily by handlers.
"""

import os
import sys

sys.path.insert(0, os.path.dirname(os.path.dirname(os.path.abspath(__file__))))

from circuits.core import manager as M  # noqa: E402
from circuits.core.components import BaseComponent  # noqa: E402
from circuits.core.events import Event  # noqa: E402
from circuits.core.handlers import handler  # noqa: E402

from harness.common import Part, run_property  # noqa: E402
from pathex import PathEnd  # noqa: E402

PROPERTY = 'C05'
EXPLANATION = ('C05: handlers grow a finite event tree lazily (fan-out, cancelled / stopped / raising / complete-requesting '
               'children, children fired from a later generator step); the real cause/effects bookkeeping runs to quiescence and '
               'the position and multiplicity of every <name>_complete is checked against the ghost causality tree.')
ASSUMPTIONS = [
    'single thread, manager not running: stepped with fire()/tick()',
    'a cancelled event that itself requested completion is not required to complete (statement is about events that are dispatched)',
]
OUTSIDE = ['trees larger/deeper than the stated bounds', 'complete_channels other than the default (exercised by C07 through unregister)']


class node(Event):
    pass


class MyErr(Exception):
    pass


def make_harness(max_events, max_depth, roots=1, allow_gen=True, allow_cancel=True, allow_raise=True, allow_stop=True,
                 allow_nested_complete=True, max_ticks=30, two_generators=False, allow_call=False, fanout=2):
    def harness(g):
        log = []            # ('h', name, 'hi'|'lo'|'gen2') / ('complete', name) / ('exc', name)
        info = {}           # name -> dict(parent, depth, cancelled, complete, obj)
        count = {'n': 0}

        def new_event(comp, name, parent, depth, complete=False, cancelled=False, fire=True):
            e = node(name)
            if complete:
                e.complete = True
            info[name] = {'parent': parent, 'depth': depth, 'cancelled': cancelled, 'complete': complete, 'obj': e,
                          'from_gen': False}
            count['n'] += 1
            if fire:
                comp.fire(e)
            if cancelled:
                e.cancel()
            return e

        def fire_children(comp, name, tag):
            rec = info[name]
            if rec['depth'] >= max_depth:
                return
            n = g.choose('nchild_%s_%s' % (name, tag), fanout + 1)
            for i in range(n):
                if count['n'] >= max_events:
                    break
                cname = '%s.%s%d' % (name, tag, i)
                kinds = ['normal']
                if allow_cancel:
                    kinds.append('cancelled')
                if allow_nested_complete:
                    kinds.append('complete')
                k = g.pick('ckind_%s' % cname, kinds) if len(kinds) > 1 else 'normal'
                new_event(comp, cname, name, rec['depth'] + 1, complete=(k == 'complete'), cancelled=(k == 'cancelled'))
                if tag == 'g':
                    info[cname]['from_gen'] = True

        class Comp(BaseComponent):
            @handler('node', priority=1)
            def hi(self, event, name):
                log.append(('h', name, 'hi'))
                rec = info[name]
                kinds = ['plain']
                if allow_gen and rec['depth'] < max_depth:
                    kinds.append('gen')
                if allow_call and rec['depth'] < max_depth and count['n'] < max_events:
                    kinds.append('call')
                kind = g.pick('kind_%s' % name, kinds) if len(kinds) > 1 else 'plain'
                fire_children(self, name, 's')
                ends = ['ok']
                if allow_stop:
                    ends.append('stop')
                if allow_raise:
                    ends.append('raise')
                end = g.pick('end_%s' % name, ends) if len(ends) > 1 else 'ok'
                rec['end'] = end
                rec['kind'] = kind
                if end == 'stop':
                    event.stop()
                if kind == 'gen':
                    def gen():
                        yield None
                        log.append(('h', name, 'gen2'))
                        fire_children(self, name, 'g')
                        if end == 'raise':
                            raise MyErr(name)
                    return gen()
                if kind == 'call':
                    rec['kind'] = 'gen'

                    def genc():
                        # the handler suspends in call(): the called event and everything below it belong to the closure,
                        # and so does whatever the continuation fires once the call has returned
                        cname = '%s.c0' % name
                        ce = new_event(self, cname, name, rec['depth'] + 1, fire=False)
                        info[cname]['from_gen'] = True
                        yield self.call(ce)
                        log.append(('h', name, 'gen2'))
                        fire_children(self, name, 'g')
                        if end == 'raise':
                            raise MyErr(name)
                    return genc()
                if end == 'raise':
                    raise MyErr(name)

            @handler('node', priority=0)
            def lo(self, event, name):
                log.append(('h', name, 'lo'))
                rec = info[name]
                if two_generators and allow_gen and rec['depth'] < max_depth and g.flag('logen_%s' % name):
                    # a second generator handler of the same event, longer than the first
                    rec['kind2'] = 'gen'

                    def gen2():
                        yield None
                        yield None
                        yield None
                        log.append(('h', name, 'lo-gen-end'))
                        if count['n'] < max_events:
                            new_event(self, '%s.l0' % name, name, rec['depth'] + 1)
                            info['%s.l0' % name]['from_gen'] = True
                    return gen2()

            @handler('node_complete', channel='*')
            def done(self, event, e, value):
                log.append(('complete', e.args[0]))

            @handler('exception', channel='*')
            def exc(self, etype, evalue, tb, handler=None, fevent=None):
                if fevent is not None and fevent.name == 'node':
                    log.append(('exc', fevent.args[0]))
                else:
                    log.append(('exc-other', repr(evalue)))

        comp = Comp()
        comp.flush()
        del log[:]
        for r in range(roots):
            new_event(comp, 'r%d' % r, None, 0, complete=True)
        ticks = 0
        while (len(comp._queue) or comp._tasks) and ticks < max_ticks:
            comp.tick()
            ticks += 1
        # drain a little further: complete events may be queued by the last tick
        for _ in range(3):
            comp.tick()

        def descendants(name):
            out = []
            for n, r in info.items():
                p = r['parent']
                while p is not None:
                    if p == name:
                        out.append(n)
                        break
                    p = info[p]['parent']
            return out

        def dispatched(n):
            # an event is dispatched unless it or ... was cancelled (a cancelled event's handlers never run, it fires nothing)
            return not info[n]['cancelled']

        tree = {n: (r['parent'], 'C' if r['cancelled'] else '', 'K' if r['complete'] else '', r.get('kind', ''), r.get('end', '')) for n, r in info.items()}
        g.note({'tree': tree, 'log': log[:30]})
        if len(comp._queue) or comp._tasks:
            g.fail('never-quiescent', {}, 'tree=%s' % tree)
            raise PathEnd()
        if [x for x in log if x[0] == 'exc-other']:
            g.fail('unexpected-exception', {}, str([x for x in log if x[0] == 'exc-other'][:2]))
        for name, rec in info.items():
            if not rec['complete'] or rec['cancelled']:
                continue
            desc = descendants(name)
            w = {
                'has_cancelled_descendant': any(info[d]['cancelled'] for d in desc),
                'has_generator_fired_descendant': any(info[d]['from_gen'] for d in desc),
                'generator_in_closure': any(info[d].get('kind') == 'gen' for d in desc + [name]),
                'raise_in_generator': any(info[d].get('kind') == 'gen' and info[d].get('end') == 'raise' for d in desc + [name]),
            }
            pos = [i for i, x in enumerate(log) if x == ('complete', name)]
            detail = 'event %s tree=%s log=%s' % (name, tree, log[:40])
            if len(pos) > 1:
                g.fail('complete-twice', w, detail)
                continue
            if len(pos) == 0:
                g.fail('complete-never-fired', w, detail)
                continue
            members = [name] + [d for d in desc if dispatched(d)]
            last = max([i for i, x in enumerate(log) if x[0] in ('h', 'exc') and x[1] in members] or [-1])
            if pos[0] < last:
                g.fail('complete-too-early', w, detail)
    return harness


ENC = [M.Manager._fire, M.Manager._dispatcher, M.Manager._eventDone, M.Manager._effectDone, M.Manager.processTask, M.Manager.tick]


def canaries():
    from harness.common import mutate
    return [
        ('effects-not-incremented', 'tree', lambda: mutate(M.Manager, '_fire', 'self._currently_handling.effects += 1', 'pass'), ['complete-too-early', 'complete-twice']),
        ('complete-at-first-zero-only-root', 'tree', lambda: mutate(M.Manager, '_effectDone', 'if event.effects > 0:', 'if event.effects > 1:'), None),
        ('only-first-generator-counted', 'two-generator-handlers', lambda: mutate(M.Manager, '_dispatcher', 'event.waitingHandlers += 1\n                event.value.promise = True', 'event.waitingHandlers += 0 if event.value.promise else 1\n                event.value.promise = True'), None),
        ('handling-cleared-after-step', 'call-in-generator', lambda: mutate(M.Manager, 'processTask', 'value = next(task)\n', 'value = next(task)\n        self._currently_handling = None\n'), None),
        ('cause-not-inherited', 'tree', lambda: mutate(M.Manager, '_fire', 'event.cause = self._currently_handling', 'event.cause = self._currently_handling.cause'), None),
    ]


def parts(tier):
    if tier == 'quick':
        return [
            Part('tree', make_harness(max_events=4, max_depth=2, allow_gen=False),
                 bounds={'max_events': 4, 'max_depth': 2, 'roots': 1, 'child_kinds': ['normal', 'cancelled', 'complete'], 'ends': ['ok', 'stop', 'raise'], 'generators': False},
                 encoded=ENC[:4], budget_s=70),
            Part('tree-generators', make_harness(max_events=4, max_depth=2, allow_gen=True, allow_stop=False, allow_nested_complete=False),
                 bounds={'max_events': 4, 'max_depth': 2, 'roots': 1, 'child_kinds': ['normal', 'cancelled'], 'ends': ['ok', 'raise'], 'generators': True},
                 encoded=ENC, budget_s=70),
            Part('call-in-generator', make_harness(max_events=5, max_depth=4, allow_gen=False, allow_call=True, allow_stop=False, allow_raise=True,
                                                   allow_nested_complete=False, allow_cancel=False, max_ticks=60, fanout=1),
                 bounds={'max_events': 5, 'max_depth': 4, 'roots': 1, 'fanout': 1, 'child_kinds': ['normal'], 'ends': ['ok', 'raise (also after the call has returned)'],
                         'generators': 'a handler may suspend in call(child) and fire children when the call returns'},
                 encoded=ENC + [M.Manager.callEvent, M.Manager.waitEvent], budget_s=70),
            Part('two-generator-handlers', make_harness(max_events=3, max_depth=1, allow_gen=True, allow_stop=False, allow_nested_complete=False, allow_cancel=False, two_generators=True),
                 bounds={'max_events': 3, 'max_depth': 1, 'roots': 1, 'generators': 'both handlers of an event may be generators of different length', 'ends': ['ok', 'raise']},
                 encoded=ENC, budget_s=70),
        ]
    return [
        Part('tree', make_harness(max_events=5, max_depth=3, allow_gen=False),
             bounds={'max_events': 5, 'max_depth': 3, 'roots': 1, 'generators': False}, encoded=ENC[:4], budget_s=900),
        Part('tree-generators', make_harness(max_events=4, max_depth=2, allow_gen=True),
             bounds={'max_events': 4, 'max_depth': 2, 'child_kinds': ['normal', 'cancelled', 'complete'], 'ends': ['ok', 'stop', 'raise'], 'roots': 1, 'generators': True}, encoded=ENC, budget_s=900),
        Part('call-in-generator', make_harness(max_events=5, max_depth=4, allow_gen=False, allow_call=True, allow_stop=False, allow_raise=False, allow_nested_complete=False, allow_cancel=False, max_ticks=80),
             bounds={'max_events': 5, 'max_depth': 4, 'fanout': 2, 'roots': 1, 'child_kinds': ['normal'], 'ends': ['ok'], 'generators': 'a handler may suspend in call(child) and fire children when the call returns'},
             encoded=ENC + [M.Manager.callEvent, M.Manager.waitEvent], budget_s=900),
        Part('two-roots', make_harness(max_events=4, max_depth=2, roots=2, allow_gen=True, allow_stop=False, allow_raise=False),
             bounds={'max_events': 4, 'max_depth': 2, 'roots': 2, 'generators': True, 'ends': ['ok']}, encoded=ENC, budget_s=900),
    ]


if __name__ == '__main__':
    sys.exit(run_property(sys.modules[__name__]))
