"""C09 -- timers never fire early, fire as often as specified, and bound the idle sleep.

The wall clock is a symbolic variable: time() is a virtual clock whose value is a z3 Real; it advances by fresh
deltas >= 0 between loop iterations and by 0 <= d <= timeout inside each idle wait.  Intervals are z3 Reals >= 0.
Real code: Timer.__init__/reset/_on_generate_events/expiry, generate_events.reduce_time_left/time_left,
Manager._dispatcher (arming of generate_events), tick, FallBackGenerator._on_generate_events.
"""

import datetime
import os
import sys
import time

sys.path.insert(0, os.path.dirname(os.path.dirname(os.path.abspath(__file__))))

from circuits.core import events as EV  # noqa: E402
from circuits.core import helpers as HP  # noqa: E402
from circuits.core import manager as M  # noqa: E402
from circuits.core import timers as T  # noqa: E402
from circuits.core.components import BaseComponent  # noqa: E402
from circuits.core.events import Event  # noqa: E402
from circuits.core.handlers import handler  # noqa: E402

from harness import doubles  # noqa: E402
from harness.common import Part, run_property  # noqa: E402
from pathex import PathEnd  # noqa: E402

PROPERTY = 'C09'
EXPLANATION = ('C09: intervals, every clock advance between iterations and every idle-wait duration are z3 Reals; the real Timer, '
               'generate_events and fall-back idle code run for a bounded number of loop iterations; "not early", "at least one '
               'interval apart", "idle wait never past the earliest expiry" and "a due timer fires in this iteration" are '
               'discharged by z3 on every path.')
ASSUMPTIONS = [
    'time() is a non-decreasing clock; within one loop iteration all readings are equal (the clock advances between iterations '
    'and inside idle waits), so that "never sleeps past the earliest expiry" is exactly checkable',
    'threading.Event.wait(t) returns after 0 <= d <= t',
    'manager marked running (as run() does) and stepped with tick(); single thread',
]
OUTSIDE = ['absolute datetime deadlines other than whole seconds 0/1/3 s after a fixed calendar second (mktime/timetuple are C code and run on concrete datetimes; the clock phase is symbolic)', 'Sleep() objects (float() of the argument)',
           'more timers/iterations than the bounds']


# a whole second of the local calendar, as an epoch value
BASE = int(time.mktime(datetime.datetime(2031, 3, 4, 5, 6, 7).timetuple()))


def make_harness(n_timers, iterations, allow_ops=True, noise=True, absolute=False):
    def harness(g):
        clock = doubles.VirtualClock(g, start=BASE if absolute else 0)
        idle = doubles.IdleController(g, clock)
        doubles.install_clock(clock)
        doubles.install_event_double(idle)
        try:
            body(g, clock, idle)
        finally:
            doubles.uninstall_all()

    def body(g, clock, idle):
        fires = []        # (timer idx, clock at fire)
        state = {'iter': -1}

        def mk_event(j):
            class tmr(Event):
                # the moment a Timer fires its event is observed through fireEvent() assigning event.value
                @property
                def value(self):
                    return self.__dict__.get('_v')

                @value.setter
                def value(self, v):
                    self.__dict__['_v'] = v
                    if v is not None:
                        fires.append((j, clock.now, state['iter']))
            tmr.__name__ = 'tmr%d' % j
            return tmr

        class App(BaseComponent):
            @handler('noise')
            def on_noise(self, event):
                pass

            @handler('task')
            def on_task(self, event):
                yield None
                yield None

            @handler('exception', channel='*')
            def on_exc(self, etype, evalue, tb, handler=None, fevent=None):
                if etype is not doubles.Abort:
                    state.setdefault('exc', []).append(repr(evalue))

        app = App()
        doubles.mark_running(app)
        timers = []
        ghost = []       # per timer: dict(I, persist, armed_at (clock of last arm) , alive, unregistered_at_iter)
        for j in range(n_timers):
            clock.advance('c%d' % j)
            persist = g.flag('persist%d' % j)
            armed = clock.now
            if absolute and g.flag('abs%d' % j):
                # an absolute deadline: a whole second k seconds after BASE, while the clock stands at an arbitrary
                # (fractional) instant >= BASE; mktime()/timetuple() run on the concrete datetime
                k = g.pick('k%d' % j, [0, 1, 3])
                t = T.Timer(datetime.datetime.fromtimestamp(BASE + k), mk_event(j)(), persist=persist)
                interval = (BASE + k) - armed
            else:
                interval = g.real('I%d' % j, 0)
                t = T.Timer(interval, mk_event(j)(), persist=persist)
            t.register(app)
            timers.append(t)
            ghost.append({'I': interval, 'persist': persist, 'armed': armed, 'alive': True, 'fired': [], 'unreg_iter': None})
        ops_left = {'reset': 1, 'unregister': 1}

        def fail(clause, w, detail):
            g.fail(clause, w, detail)
            raise PathEnd()

        for it in range(iterations):
            state['iter'] = it
            # optional operation before the iteration
            if allow_ops:
                menu = ['none']
                for j in range(n_timers):
                    if ops_left['reset'] and ghost[j]['alive']:
                        menu.append(('reset', j))
                        menu.append(('reset-new-interval', j))
                    if ops_left['unregister'] and ghost[j]['alive']:
                        menu.append(('unregister', j))
                op = g.pick('op%d' % it, menu) if len(menu) > 1 else 'none'
                if op != 'none':
                    ops_left['reset' if op[0].startswith('reset') else op[0]] -= 1
                    if op[0] == 'reset':
                        timers[op[1]].reset()
                        ghost[op[1]]['armed'] = clock.now
                    elif op[0] == 'reset-new-interval':
                        new_i = g.real('J%d' % op[1], 0)
                        timers[op[1]].reset(new_i)
                        ghost[op[1]]['armed'] = clock.now
                        ghost[op[1]]['I'] = new_i
                        ghost[op[1]]['fired'] = []     # the spacing rule restarts with the new interval
                    else:
                        timers[op[1]].unregister()
                        ghost[op[1]]['alive'] = False
                        ghost[op[1]]['unreg_iter'] = it
            nz = g.pick('noise%d' % it, ['none', 'event', 'task']) if noise and it < 1 else 'none'
            if nz == 'event':
                app.fire(Event.create('noise'))
            elif nz == 'task':
                app.fire(Event.create('task'))
            pending = [j for j in range(n_timers) if ghost[j]['alive']]
            if not pending:
                break      # without a pending timer nothing but another thread could end the idle wait: not created here
            clock.advance('d%d' % it)
            start_now = clock.now
            due = {j: ghost[j]['armed'] + ghost[j]['I'] for j in pending}
            n_fires = len(fires)
            n_waits = len(idle.waits)
            queue_nonempty = len(app._queue) > 0
            tasks_before = bool(app._tasks)
            app.tick()
            if state.get('exc'):
                fail('unexpected-exception', {}, str(state['exc'][:2]))
            new_fires = fires[n_fires:]
            # idle waits of this iteration
            for (tmo, at) in idle.waits[n_waits:]:
                if tmo == 'unbounded':
                    fail('idle-wait-unbounded-with-pending-timer', {}, 'iteration %d, pending timers %s' % (it, pending))
                for j in pending:
                    if any(f[0] == j for f in new_fires):
                        continue
                    # the wait must not extend past expiry_j
                    if not g.check(at + tmo <= due[j], 'idle-sleep-past-expiry', {'timer': j},
                                   'iteration %d: wait(%s) entered at %s, timer %d expires at %s' % (it, g.value_of(tmo), g.value_of(at), j, g.value_of(due[j]))):
                        raise PathEnd()
            # firings of this iteration
            for (j, at, _) in new_fires:
                gh = ghost[j]
                if not gh['alive']:
                    fail('fired-after-unregister' if gh['unreg_iter'] is not None else 'one-shot-fired-twice', {'timer': j},
                         'timer %d fired in iteration %d' % (j, it))
                if not g.check(at >= gh['armed'] + gh['I'], 'fired-early', {'timer': j},
                               'timer %d fired at %s, armed at %s with interval %s' % (j, g.value_of(at), g.value_of(gh['armed']), g.value_of(gh['I']))):
                    raise PathEnd()
                if gh['fired'] and not g.check(at - gh['fired'][-1] >= gh['I'], 'persistent-too-soon', {'timer': j}, 'timer %d' % j):
                    raise PathEnd()
                gh['fired'].append(at)
                if gh['persist']:
                    gh['armed'] = at       # reset() re-arms from the same clock reading
                else:
                    gh['alive'] = False
            for j in pending:
                if len([f for f in new_fires if f[0] == j]) > 1:
                    fail('fired-twice-in-one-iteration', {'timer': j}, 'iteration %d' % it)
                if not any(f[0] == j for f in new_fires):
                    # a timer due at the start of the iteration must fire in it
                    if not g.check(due[j] > start_now, 'due-timer-not-fired', {'timer': j},
                                   'iteration %d: timer %d due at %s, now %s' % (it, j, g.value_of(due[j]), g.value_of(start_now))):
                        raise PathEnd()
        # drain: one-shot timers that fired must be gone from the tree
        state['iter'] = iterations
        n_fires = len(fires)
        for _ in range(4):
            if not len(app._queue) and not app._tasks:
                break
            app.tick(0)
        if len(fires) != n_fires:
            late = fires[n_fires:]
            for (j, at, _) in late:
                if not ghost[j]['alive']:
                    fail('fired-after-unregister', {'timer': j}, 'during drain')
        for j in range(n_timers):
            gh = ghost[j]
            if not gh['persist'] and gh['fired'] and timers[j] in app.components:
                fail('one-shot-not-removed', {'timer': j}, 'timer %d still registered after firing and draining' % j)
            if gh['unreg_iter'] is not None and timers[j] in app.components:
                fail('unregistered-timer-still-attached', {'timer': j}, '')
        g.note({'intervals': [str(g.value_of(x['I'])) for x in ghost], 'persist': [x['persist'] for x in ghost],
                'fires': [(j, str(g.value_of(at)), it) for (j, at, it) in fires][:8],
                'waits': [(str(g.value_of(a)), str(g.value_of(b))) for a, b in idle.waits][:8]})
        doubles.unmark_running(app)
    return harness


ENC = [T.Timer.reset, T.Timer._on_generate_events, EV.generate_events.reduce_time_left, M.Manager._dispatcher, M.Manager.tick,
       HP.FallBackGenerator._on_generate_events]


def canaries():
    from harness.common import mutate
    return [
        ('fires-one-early', 'timers', lambda: mutate(T.Timer, 'reset', 'self.expiry = time() + self.interval', 'self.expiry = time() + self.interval - 1'), ['fired-early']),
        ('strict-comparison', 'timers', lambda: mutate(T.Timer, '_on_generate_events', 'if now >= self.expiry:', 'if now > self.expiry:'), ['due-timer-not-fired']),
        ('no-reduce-time-left', 'timers', lambda: mutate(T.Timer, '_on_generate_events', 'event.reduce_time_left(self.expiry - now)', 'pass'), ['idle-wait-unbounded-with-pending-timer', 'idle-sleep-past-expiry']),
        ('reduce-allows-increase', 'timers', lambda: mutate(EV.generate_events, 'reduce_time_left', 'self._time_left > time_left', 'self._time_left != time_left'), ['idle-sleep-past-expiry']),
        ('refire-while-unregister-pending', 'timers', lambda: mutate(T.Timer, '_on_generate_events', 'if self.unregister_pending:', 'if False:'), ['fired-after-unregister', 'one-shot-fired-twice']),
        ('datetime-span-truncated', 'absolute-deadline', lambda: mutate(T.Timer, 'reset', 'self.interval = mktime(interval.timetuple()) - time()', 'self.interval = int(mktime(interval.timetuple()) - time())'), ['fired-early']),
        ('fallback-waits-wrong-value', 'timers', lambda: mutate(HP.FallBackGenerator, '_on_generate_events', 'self._continue.wait(event.time_left)', 'self._continue.wait(event.time_left + 1)'), ['idle-sleep-past-expiry']),
    ]


def parts(tier):
    if tier == 'quick':
        return [Part('timers', make_harness(2, 3), bounds={'timers': 2, 'iterations': 3, 'ops': 'one reset (same or new symbolic interval) and one unregister at any iteration', 'noise': 'queued event / generator task in the first iteration'},
                     encoded=ENC, budget_s=90),
                Part('absolute-deadline', make_harness(1, 3, allow_ops=False, noise=False, absolute=True),
                     bounds={'timers': 1, 'iterations': 3, 'deadline': 'datetime 0/1/3 whole seconds after a fixed calendar second; clock at an arbitrary real instant at or after it', 'ops': 'none'},
                     encoded=ENC, budget_s=60)]
    return [Part('absolute-deadline', make_harness(2, 4, noise=False, absolute=True), bounds={'timers': 2, 'iterations': 4, 'deadline': 'numeric or datetime (0/1/3 s after a fixed second)'}, encoded=ENC, budget_s=900),
            Part('timers', make_harness(2, 4), bounds={'timers': 2, 'iterations': 4}, encoded=ENC, budget_s=1800),
            Part('three-timers', make_harness(3, 3, noise=False), bounds={'timers': 3, 'iterations': 3}, encoded=ENC, budget_s=1800)]


if __name__ == '__main__':
    sys.exit(run_property(sys.modules[__name__]))
