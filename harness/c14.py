"""C14 -- any bytes on an HTTP connection: wait, or one valid error response, or close; never a crash.

Real code: web.http.HTTP._on_read/_on_httperror/_on_exception/_on_disconnect/_on_response, HttpParser.*,
wrappers.Request.__init__/Response.prepare, errors.httperror.  Data: the truncation offset (z3 Int).  Choices: base
request, mutation(s) from a catalogue, whether/when the peer disconnects.
"""

import gzip
import os
import sys

sys.path.insert(0, os.path.dirname(os.path.dirname(os.path.abspath(__file__))))

from circuits.core.components import BaseComponent  # noqa: E402
from circuits.core.handlers import handler  # noqa: E402
from circuits.web import errors as WE  # noqa: E402
from circuits.web import http as WH  # noqa: E402
from circuits.web.parsers import http as HP  # noqa: E402

from harness.common import Part, run_property  # noqa: E402
from harness.httpkit import Rig, parse_responses  # noqa: E402
from harness.netdoubles import retained  # noqa: E402
from pathex import PathEnd  # noqa: E402

PROPERTY = 'C14'
EXPLANATION = ('C14: a request from a small grammar is damaged by one (thorough: two) mutation(s) from a catalogue, truncated at a '
               'symbolic offset and optionally followed by a disconnect; the real HTTP component must either write nothing, or '
               'exactly one response that an independent parser (http.client) accepts, with a 4xx/5xx status for rejected input '
               'and Connection: close iff it closes, or just close; no request event for rejected input; no exception may leave '
               'tick(); after the disconnect no per-connection state may be left.')
ASSUMPTIONS = ['the TCP server is replaced by a sink that records write/close and answers close with disconnect',
               'the application answers every request it is given with 200 (so every 4xx/5xx stems from the HTTP component)']
OUTSIDE = ['inputs outside the mutation catalogue', 'oversized headers beyond 9000 bytes', 'TLS-enabled servers']

HOST = b'Host: example.org\r\n'
GZ = gzip.compress(b'a' * 3000, mtime=0)
BASES = [
    ('get', b'GET /a?x=1 HTTP/1.1\r\n' + HOST + b'X-A: 1\r\n\r\n'),
    ('post-clen', b'POST /p HTTP/1.1\r\n' + HOST + b'Content-Length: 3\r\n\r\nabc'),
    ('post-chunked', b'POST /c HTTP/1.1\r\n' + HOST + b'Transfer-Encoding: chunked\r\n\r\n3\r\nabc\r\n0\r\n\r\n'),
    ('head', b'HEAD /a?x=1 HTTP/1.1\r\n' + HOST + b'X-A: 1\r\n\r\n'),      # answered without a body: a branch of its own in _on_response
    ('head-clen', b'HEAD /h HTTP/1.1\r\n' + HOST + b'Content-Length: 3\r\n\r\nabc'),
    ('post-gzip', b'POST /z HTTP/1.1\r\n' + HOST + b'Content-Encoding: gzip\r\nContent-Length: %d\r\n\r\n' % len(GZ) + GZ),   # wire size << inflated size
    ('get-boom', b'GET /boom HTTP/1.1\r\n' + HOST + b'\r\n'),          # the application itself fails: one 500, nothing else
]


def _repl(a, b):
    return lambda m: m.replace(a, b, 1) if a in m else None


MUTATIONS = [
    ('none', lambda m: m),
    ('lowercase-method', lambda m: m[:1].lower() + m[1:]),
    ('method-with-paren', lambda m: b'G(T' + m[3:] if m.startswith(b'GET') else b'P(ST' + m[4:]),
    ('no-version', _repl(b' HTTP/1.1\r\n', b'\r\n')),
    ('bad-version', _repl(b'HTTP/1.1', b'HTTP/x.y')),
    ('version-2.0', _repl(b'HTTP/1.1', b'HTTP/2.0')),
    ('version-0.9', _repl(b'HTTP/1.1', b'HTTP/0.9')),
    ('fragment', _repl(b' HTTP/1.1', b'#frag HTTP/1.1')),
    ('absolute-uri', _repl(b' /', b' http://other.example/')),
    ('star-target', lambda m: m.split(b' ', 2)[0] + b' * ' + m.split(b' ', 2)[2]),
    ('dotdot-target', _repl(b' /', b' /../../etc/')),
    ('backslash-x-in-target', _repl(b' /', b' /\\x')),
    ('backslash-u-in-target', _repl(b' /', b' /\\u12')),
    ('backslash-in-header', _repl(b'Host: example.org', b'Host: exa\\xmple.org')),
    ('nul-in-target', _repl(b' /', b' /\x00')),
    ('nul-in-header-name', _repl(b'Host:', b'Ho\x00st:')),
    ('header-without-colon', _repl(b'Host: example.org\r\n', b'Host example.org\r\n')),
    ('header-name-with-space', _repl(b'Host:', b'Ho st:')),
    ('no-host', _repl(HOST, b'')),
    ('empty-host', _repl(HOST, b'Host:\r\n')),
    ('host-with-bad-port', _repl(HOST, b'Host: example.org:abc\r\n')),
    ('oversized-header', _repl(HOST, HOST + b'X-Big: ' + b'a' * 9000 + b'\r\n')),
    ('clen-x', _repl(b'Content-Length: 3', b'Content-Length: x')),
    ('clen-negative', _repl(b'Content-Length: 3', b'Content-Length: -1')),
    ('clen-list', _repl(b'Content-Length: 3', b'Content-Length: 1,2')),
    ('clen-twice-different', _repl(b'Content-Length: 3\r\n', b'Content-Length: 3\r\nContent-Length: 5\r\n')),
    ('clen-and-chunked', _repl(b'Transfer-Encoding: chunked\r\n', b'Transfer-Encoding: chunked\r\nContent-Length: 2\r\n')),
    ('clen-too-small', _repl(b'Content-Length: 3', b'Content-Length: 1')),
    ('bad-chunk-size', _repl(b'\r\n\r\n3\r\n', b'\r\n\r\nzz\r\n')),
    ('negative-chunk-size', _repl(b'\r\n\r\n3\r\n', b'\r\n\r\n-3\r\n')),
    ('chunk-missing-terminator', _repl(b'3\r\nabc\r\n', b'3\r\nabcXX')),
    ('bare-lf', lambda m: m.replace(b'\r\n', b'\n')),
    ('leading-crlf', lambda m: b'\r\n' + m),
    ('tls-client-hello', lambda m: b'\x16\x03\x01\x02\x00\x01\x00\x01\xfc\x03\x03' + b'\x00' * 20),
    ('binary-garbage', lambda m: b'\xff\xfe\x00\x01\r\n\r\n'),
    ('only-crlfs', lambda m: b'\r\n\r\n\r\n'),
    ('cookie-garbage', _repl(HOST, HOST + b'Cookie: a=b; \x7f=;;=\r\n')),
    ('expect-100', _repl(HOST, HOST + b'Expect: 100-continue\r\n')),
    ('connection-close', _repl(HOST, HOST + b'Connection: close\r\n')),
]


# mutations that certainly make the message malformed/unsupported: delivered whole, it must be rejected (4xx/5xx or close),
# neither served nor left unanswered
MUST_REJECT = {'no-version', 'bad-version', 'version-2.0', 'version-0.9', 'fragment', 'header-without-colon', 'header-name-with-space',
               'nul-in-header-name', 'no-host', 'clen-x', 'bad-chunk-size', 'binary-garbage'}


class App(BaseComponent):
    channel = 'web'

    @handler('request', priority=0.5)
    def _on_request(self, event, req, res, *a):
        if req.path == '/boom':
            raise RuntimeError('application failure')
        if req.path == '/stream':
            # a streamed body (written piece by piece through HTTP._on_stream)
            res.body = (x for x in [b'st', b're', b'am'])
            res.stream = True
            return res
        return 'ok %s' % req.path


def make_harness(n_mut, truncation=True, bases=None, prelude=False):
    def harness(g):
        bname, msg = g.pick('base', [b for b in BASES if bases is None or b[0] in bases])
        applied = []
        for k in range(n_mut):
            mname, fn = g.pick('mut%d' % k, MUTATIONS)
            try:
                m2 = fn(msg)
            except (IndexError, ValueError):
                m2 = None
            if m2 is None:
                raise PathEnd('mutation not applicable')
            msg = m2
            applied.append(mname)
        L = len(msg)
        full = g.flag('deliver_all') if truncation else True
        if full:
            t = L
        else:
            # truncation offset; the solver enumerates it through the slice below
            if L > 400:
                # oversized header: representative offsets only (both ends and around the 4096-byte read size)
                t = g.pick('trunc_big', list(range(1, 61)) + [4095, 4096, 4097] + list(range(L - 60, L)))
            else:
                t = int(g.int('trunc', 1, L - 1)) if L > 1 else 1
        disc = g.flag('disconnect_after')
        rig = Rig(App)
        # the server may still be flushing when it has decided to close: the disconnect then comes after further reads
        late = g.flag('disconnect_deferred')
        rig.defer_disconnect = late
        sock = rig.new_sock()
        pre_out = pre_req = 0
        if prelude:
            # the message under test is the second one on a kept-alive connection whose first response was streamed
            rig.feed(sock, b'GET /stream HTTP/1.1\r\n' + HOST + b'\r\n')
            pre_out, pre_req = len(rig.out(sock)), len(rig.requests)
            if b'stream' not in rig.out(sock).replace(b'\r\n', b'') and b'st' not in rig.out(sock):
                g.fail('prelude-not-served', {}, repr(rig.out(sock)[:120]))
                raise PathEnd()
        w = {'base': bname, 'mutations': '+'.join(applied), 'truncated': not full}
        where = 'base=%s mutations=%s delivered=%d/%d bytes disconnect=%s tail=%r' % (bname, applied, t, L, disc, msg[max(0, t - 24):t])
        g.note({'base': bname, 'mutations': applied, 'delivered': t, 'of': L, 'disconnect': disc})
        try:
            settled = rig.feed(sock, msg[:t])
            if late and rig.conn(sock).get('disconnect_pending'):
                # bytes that arrive between the decision to close and the actual disconnect
                more = msg[t:] if t < L else b'GET /late HTTP/1.1\r\n' + HOST + b'\r\n'
                n_before = len(rig.requests)
                out_before = len(rig.out(sock))
                settled = rig.feed(sock, more) and settled
                if len(rig.requests) != n_before:
                    g.fail('request-event-after-close-decision', w, '%s; then %r' % (where, more[:40]))
                if len(rig.out(sock)) != out_before:
                    g.fail('write-after-close', w, '%s; then %r -> %r' % (where, more[:40], rig.out(sock)[out_before:out_before + 60]))
                settled = rig.deliver_pending_disconnect(sock) and settled
            if disc:
                settled = rig.peer_disconnect(sock) and settled
        except BaseException as e:  # noqa
            g.fail('exception-escaped-the-loop', w, '%r; %s' % (e, where))
            raise PathEnd()
        if not settled:
            g.fail('loop-never-settles', w, where)
            raise PathEnd()
        st = rig.conn(sock)
        out = bytes(st['out'])[pre_out:]
        resps = []
        nreq = len(rig.requests) - pre_req
        detail = '%s; out=%r closed=%s requests=%d exceptions=%s' % (where, out[:160], st['closed'], nreq, rig.exceptions[:2])
        if st['write_after_close']:
            g.fail('write-after-close', w, detail)
        if st['close_events'] > 1:
            g.fail('closed-twice', w, detail)
        if out:
            try:
                if msg.lstrip(b'\r\n').startswith(b'HEAD '):
                    # the answer to HEAD has no body -- unless the server never got as far as knowing the method: an error
                    # response that closes the connection may carry one
                    try:
                        resps = parse_responses(out, methods=['HEAD'], eof=st['closed'] or disc)
                    except ValueError:
                        resps = parse_responses(out, eof=st['closed'] or disc)
                        if not (len(resps) == 1 and resps[0]['status'] >= 400 and resps[0]['will_close']):
                            raise
                else:
                    resps = parse_responses(out, eof=st['closed'] or disc)
            except ValueError as e:
                g.fail('response-not-well-formed', w, '%s; %s' % (e, detail))
                raise PathEnd()
            if len(resps) != 1:
                g.fail('more-than-one-response', w, '%d responses; %s' % (len(resps), detail))
                raise PathEnd()
            r = resps[0]
            if r['status'] >= 400:
                if nreq and not (bname == 'get-boom' and r['status'] == 500):
                    g.fail('request-event-for-rejected-message', w, detail)
            elif not (200 <= r['status'] < 400):
                g.fail('unexpected-status', w, detail)
            else:
                if r['status'] == 200 and nreq != 1:
                    g.fail('response-without-request', w, detail)
            says_close = r['will_close']
            if says_close and not st['closed'] and not disc:
                g.fail('announced-close-not-closed', w, detail)
            if st['closed'] and not says_close:
                g.fail('closed-but-not-announced', w, detail)
        else:
            if [x for x in rig.exceptions if 'application failure' not in x] and not st['closed']:
                # an internal error that is neither answered nor ends the connection leaves the peer hanging
                g.fail('internal-error-unanswered', w, detail)
        if full and not disc and len(applied) == 1 and applied[0] in MUST_REJECT:
            rejected = st['closed'] or (out and resps[0]['status'] >= 400)
            if not rejected:
                g.fail('malformed-input-not-rejected', w, detail)
        if applied == ['none'] * len(applied) and not full:
            # an unmodified request that is not complete yet: nothing may be answered or dispatched
            if out or nreq or st['closed']:
                g.fail('premature-response', w, detail)
        if nreq > 1:
            g.fail('more-than-one-request-event', w, detail)
        if disc or st['closed']:
            held = retained(rig.http, sock)
            if held:
                g.fail('state-retained-after-disconnect', dict(w, where=','.join(sorted(set(held)))), '%s in %s' % (detail, held))
        # the loop is still alive: a fresh connection is served
        s2 = rig.new_sock('s2')
        try:
            rig.feed(s2, b'GET /alive HTTP/1.1\r\n' + HOST + b'\r\n')
        except BaseException as e:  # noqa
            g.fail('exception-escaped-the-loop', w, 'on the follow-up connection: %r; %s' % (e, where))
            raise PathEnd()
        if b'ok /alive' not in rig.out(s2):
            g.fail('loop-not-serving-afterwards', w, 'follow-up got %r; %s' % (rig.out(s2)[:80], detail))
    return harness


ENC = [WH.HTTP._on_read, WH.HTTP._on_httperror, WH.HTTP._on_response, WH.HTTP._on_disconnect, HP.HttpParser.execute,
       HP.HttpParser._parse_request_line, HP.HttpParser._parse_headers, HP.HttpParser._parse_body]


def canaries():
    from harness.common import mutate
    return [
        ('clients-not-dropped-on-disconnect', 'one-mutation', lambda: mutate(WH.HTTP, '_on_disconnect', 'del self._clients[sock]', 'pass'), ['state-retained-after-disconnect']),
        ('error-does-not-close', 'one-mutation', lambda: mutate(WH.HTTP, '_on_response', 'if res.close:\n                self._closing.add(sock)\n                self.fire(close(sock))', 'if res.close and res.status < 400:\n                self._closing.add(sock)\n                self.fire(close(sock))'), ['announced-close-not-closed']),
        ('request-after-505', 'one-mutation', lambda: mutate(WH.HTTP, '_on_read', 'return self.fire(httperror(req, res, 505))', 'self.fire(httperror(req, res, 505))'), None),
        ('bad-header-ignored-error', 'one-mutation', lambda: mutate(WH.HTTP, '_on_read', 'if parser.errno is not None:', 'if parser.errno == BAD_FIRST_LINE:'), None),
    ]


def parts(tier):
    if tier == 'quick':
        return [Part('one-mutation', make_harness(1), bounds={'bases': [b[0] for b in BASES], 'mutations': [m[0] for m in MUTATIONS], 'mutations_per_request': 1,
                                                             'truncation': 'every offset (z3 Int), or the whole message', 'disconnect_after': 'yes/no'},
                     encoded=ENC, budget_s=90),
                Part('two-mutations-whole', make_harness(2, truncation=False), bounds={'mutations_per_request': 2, 'truncation': 'none (whole message)', 'disconnect_after': 'yes/no'},
                     encoded=ENC, budget_s=90),
                Part('after-streamed-response', make_harness(1, truncation=False, prelude=True),
                     bounds={'mutations_per_request': 1, 'truncation': 'none', 'history': 'second message on a kept-alive connection whose first response was streamed'},
                     encoded=ENC + [WH.HTTP._on_stream], budget_s=90)]
    return [Part('one-mutation', make_harness(1), bounds={'mutations_per_request': 1}, encoded=ENC, budget_s=900),
            Part('two-mutations-whole', make_harness(2, truncation=False), bounds={'mutations_per_request': 2, 'truncation': 'none (whole message)', 'disconnect_after': 'yes/no'},
                 encoded=ENC, budget_s=900),
            Part('after-streamed-response', make_harness(1, prelude=True),
                 bounds={'mutations_per_request': 1, 'truncation': 'every offset', 'history': 'second message on a kept-alive connection whose first response was streamed'},
                 encoded=ENC + [WH.HTTP._on_stream], budget_s=900),
            Part('two-mutations-truncated', make_harness(2, bases=['get', 'post-chunked']), bounds={'bases': ['get', 'post-chunked'], 'mutations_per_request': 2, 'truncation': 'every offset (z3 Int), or the whole message'},
                 encoded=ENC, budget_s=1800)]


if __name__ == '__main__':
    sys.exit(run_property(sys.modules[__name__]))
