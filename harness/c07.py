"""C07 -- component tree stays a consistent forest under register/unregister.

Real code: BaseComponent.register/unregister/_do_prepare_unregister_complete/_updateRoot,
Manager.registerChild (incl. _EventQueue.drainFrom)/unregisterChild, prepare_unregister.in_subtree, and the
complete machinery the unregistration protocol relies on.  Choices: the history of operations.
"""

import os
import sys

sys.path.insert(0, os.path.dirname(os.path.dirname(os.path.abspath(__file__))))

from circuits.core import manager as M  # noqa: E402
from circuits.core import components as CM  # noqa: E402
from circuits.core.components import BaseComponent  # noqa: E402
from circuits.core.events import Event  # noqa: E402
from circuits.core.handlers import handler  # noqa: E402

from harness.common import Part, run_property  # noqa: E402
from pathex import PathEnd  # noqa: E402

PROPERTY = 'C07'
EXPLANATION = ('C07: a history of register / unregister / probe-fire / tick operations is drawn over a pool of components; after '
               'every step the real object graph is checked for forest consistency, and the registered / unregistered / probe '
               'events seen by per-component observers are checked against a ghost forest.')
ASSUMPTIONS = [
    'register(c,p) only with c fully detached (no unregistration pending) and p outside c\'s subtree',
    'single thread; roots are stepped with tick() (managers not running)',
    'the ghost forest changes at register() calls and when an `unregistered` event is observed',
]
OUTSIDE = ['pools/histories beyond the bounds', 'running managers (run()/start()) being registered into each other']


class probe(Event):
    pass


def make_harness(n, length, settle_ticks=10, warm=False, settle_choice=False):
    def harness(g):
        seen = []            # (kind, event object, receiver idx)
        comps = []

        class Node(BaseComponent):
            @handler('registered', channel='*')
            def _on_reg(self, event, component, manager):
                seen.append(('registered', event, self._idx))
                on_seen('registered', event, self._idx)

            @handler('unregistered', channel='*')
            def _on_unreg(self, event, component, manager):
                seen.append(('unregistered', event, self._idx))
                on_seen('unregistered', event, self._idx)

            @handler('probe', channel='*')
            def _on_probe(self, event, pid):
                seen.append(('probe', event, self._idx))
                on_seen('probe', event, self._idx)

            @handler('exception', channel='*')
            def _on_exc(self, etype, evalue, tb, handler=None, fevent=None):
                seen.append(('exception', repr(evalue), self._idx))

        for i in range(n):
            c = Node()
            c._idx = i
            comps.append(c)
        idx = {id(c): i for i, c in enumerate(comps)}
        gparent = list(range(n))          # ghost parent (index); self = root
        pending = set()                   # ghost: unregistration requested, `unregistered` not yet observed
        overtaken = set()
        reg_calls = []                    # (c, p) registrations requested
        unreg_calls = []                  # (c, p_at_request)
        probes = {}                       # pid -> dict(firer, groot_at_fire, firer_moved)
        history = []
        fail = {'v': None}

        def groot(i):
            k = 0
            while gparent[i] != i and k <= n:
                i = gparent[i]
                k += 1
            return i

        def gsubtree(top):
            return {i for i in range(n) if on_path(i, top)}

        def on_path(i, top):
            k = 0
            while True:
                if i == top:
                    return True
                if gparent[i] == i or k > n:
                    return False
                i = gparent[i]
                k += 1

        def violation(clause, w, detail):
            # called from inside handlers too: only latch here, raise at harness level
            if fail['v'] is None:
                fail['v'] = (clause, w, '%s; history=%s' % (detail, history))

        def on_seen(kind, event, ri):
            if kind == 'unregistered':
                ci = idx.get(id(event.args[0]))
                if ci is not None and ci in pending and event.args[0] is comps[ci]:
                    # observed completion (first sighting): ghost detaches now
                    if not getattr(event, '_ghost_done', False):
                        event._ghost_done = True
                        pending.discard(ci)
                        for q in pending:
                            if q != ci and on_path(q, ci):
                                overtaken.add(q)      # an ancestor completed while q's own unregistration was pending
                        for pr in probes.values():
                            if not pr['done'] and on_path(pr['firer'], ci):
                                pr['moved'] = True
                        gparent[ci] = ci
            elif kind == 'probe':
                pr = probes[event.args[0]]
                pr['receivers'].append(ri)
                if not pr['moved'] and groot(ri) != groot(pr['firer']):
                    violation('probe-crossed-trees', {}, 'probe %d fired by c%d seen by c%d (ghost parents %s)' % (event.args[0], pr['firer'], ri, gparent))

        def check_structure(step):
            for ci, c in enumerate(comps):
                # parent/child agreement
                p = c.parent
                if p is not c and c not in p.components:
                    return 'c%d.parent is c%s but not in its components' % (ci, idx.get(id(p)))
                for ch in c.components:
                    if id(ch) in idx and ch.parent is not c:
                        return 'c%d lists c%d as child whose parent is c%s' % (ci, idx[id(ch)], idx.get(id(ch.parent)))
                if p is c and any(c in o.components for o in comps if o is not c):
                    return 'root c%d is listed as a child' % ci
                # root = top of parent chain, no cycles
                x, k = c, 0
                while x.parent is not x:
                    x = x.parent
                    k += 1
                    if k > n:
                        return 'cycle through c%d' % ci
                if c.root is not x:
                    return 'c%d.root is c%s, top of chain is c%s' % (ci, idx.get(id(c.root)), idx.get(id(x)))
                # agreement with the ghost where the ghost is definite
                if ci not in pending and not any(on_path(ci, q) for q in pending):
                    gp = gparent[ci]
                    if (c.parent is c) != (gp == ci) or (gp != ci and c.parent is not comps[gp]):
                        return 'c%d parent c%s, ghost says c%d' % (ci, idx.get(id(c.parent)), gp)
            return None

        def tick_root(ri):
            comps[ri].tick()

        def end_if_failed():
            if fail['v'] is not None:
                g.fail(*fail['v'])
                raise PathEnd()

        pid_counter = [0]

        def apply(op):
            history.append(op)
            if op[0] == 'register':
                ci, pi = op[1], op[2]
                for pr in probes.values():
                    if not pr['done'] and on_path(pr['firer'], ci):
                        pr['moved'] = True
                comps[ci].register(comps[pi])
                gparent[ci] = pi
                reg_calls.append((ci, pi))
            elif op[0] == 'unregister':
                ci = op[1]
                unreg_calls.append((ci, gparent[ci]))
                pending.add(ci)
                comps[ci].unregister()
            elif op[0] == 'probe':
                ci = op[1]
                pid = pid_counter[0]
                pid_counter[0] += 1
                probes[pid] = {'firer': ci, 'receivers': [], 'moved': False, 'done': False, 'detached_at_fire': comps[ci].parent is comps[ci]}
                comps[ci].fire(probe(pid), '*')
            elif op[0] == 'tick':
                tick_root(op[1])
            elif op[0] == 'settle':
                settle()
            end_if_failed()
            err = check_structure(len(history))
            if err:
                g.fail('structure', {}, '%s; history=%s' % (err, history))
                raise PathEnd()

        def settle():
            for _ in range(settle_ticks):
                busy = [i for i, c in enumerate(comps) if c.parent is c and len(c._queue)]
                if not busy:
                    break
                for ri in busy:
                    tick_root(ri)
                end_if_failed()
            for pr in probes.values():
                pr['done'] = True

        if warm:
            # start from an arbitrary forest whose roots have dispatched before (handler caches filled), instead of
            # spending history steps on getting there
            for ci in range(1, n):
                pi = g.choose('init_parent%d' % ci, ci + 1)
                if pi < ci:
                    apply(('register', ci, pi))
            apply(('settle',))
            for ci in range(n):
                apply(('probe', ci))
            apply(('settle',))

        for step in range(length):
            ops = []
            for ci, c in enumerate(comps):
                if gparent[ci] == ci and ci not in pending and c.parent is c and not c.unregister_pending:
                    for pi in range(n):
                        if pi != ci and not on_path(pi, ci):
                            # p must be outside c's subtree (real check as well, in case ghost and reality differ)
                            ops.append(('register', ci, pi))
                if gparent[ci] != ci and ci not in pending:
                    ops.append(('unregister', ci))
                if not warm:
                    ops.append(('probe', ci))
            if not warm:
                real_roots = [i for i, c in enumerate(comps) if c.parent is c]
                for ri in real_roots:
                    if len(comps[ri]._queue):
                        ops.append(('tick', ri))
            ops.append(('stop',))
            op = g.pick('op%d' % step, ops)
            if op[0] == 'stop':
                history.append(op)
                break
            apply(op)
            if warm and (not settle_choice or g.flag('settle%d' % step)):
                apply(('settle',))
        if warm:
            # every component probes once more: nothing may reach a component outside the firer's tree
            apply(('settle',))
            for ci in range(n):
                apply(('probe', ci))
        # settle: tick every root until nothing is queued
        for _ in range(settle_ticks):
            busy = [i for i, c in enumerate(comps) if c.parent is c and len(c._queue)]
            if not busy:
                break
            for ri in busy:
                tick_root(ri)
            end_if_failed()
        err = check_structure(length)
        if err:
            g.fail('structure', {}, '%s; history=%s' % (err, history))
            raise PathEnd()
        g.note({'history': [list(map(str, h)) for h in history]})
        w = {}
        exc = [s for s in seen if s[0] == 'exception']
        if exc:
            g.fail('unexpected-exception', w, '%s; history=%s' % (exc[:2], history))
            raise PathEnd()
        # liveness of unregistration
        stuck = [i for i, c in enumerate(comps) if c.unregister_pending or i in pending]
        if stuck:
            # describe the situation for the known-findings matcher: did an ancestor's unregistration complete
            # (observed `unregistered`) while this component's own one was still pending?
            anc = all(ci in overtaken for ci in stuck)
            g.fail('unregistration-never-completes', {'ancestor_detached_while_pending': anc},
                   'components %s still pending after settling; history=%s' % (stuck, history))
            raise PathEnd()
        if any(len(c._queue) for c in comps if c.parent is c):
            g.fail('never-quiescent', w, str(history))
            raise PathEnd()
        # announcements: one registered per registration, one unregistered per unregistration
        for kind, calls in (('registered', reg_calls), ('unregistered', unreg_calls)):
            evs = {}
            for (k, e, ri) in seen:
                if k == kind and id(e.args[0]) in idx:
                    evs.setdefault(id(e), [e, []])[1].append(ri)
            per_call = {}
            for e, rcv in evs.values():
                key = (idx[id(e.args[0])], idx.get(id(e.args[1])))
                per_call.setdefault(key, []).append(rcv)
                if len(set(rcv)) != len(rcv):
                    g.fail('announcement-dispatched-twice', {'kind': kind}, '%s%s seen by %s; history=%s' % (kind, key, rcv, history))
                    raise PathEnd()
            want = {}
            for call in calls:
                want[call] = want.get(call, 0) + 1
            for call, cnt in want.items():
                have = len(per_call.get(call, []))
                if have != cnt:
                    g.fail('announcement-count', {'kind': kind}, '%s%s announced %d times, expected %d; history=%s' % (kind, call, have, cnt, history))
                    raise PathEnd()
            for key in per_call:
                if key not in want:
                    g.fail('announcement-count', {'kind': kind}, 'spurious %s%s; history=%s' % (kind, key, history))
                    raise PathEnd()
        # probes: none lost, none duplicated
        for pid, pr in probes.items():
            rc = pr['receivers']
            if len(set(rc)) != len(rc):
                g.fail('probe-dispatched-twice', {}, 'probe %d fired by c%d seen by %s; history=%s' % (pid, pr['firer'], rc, history))
                raise PathEnd()
            if not rc:
                g.fail('probe-lost', {'fired_on_detached': pr['detached_at_fire']}, 'probe %d fired by c%d never dispatched; history=%s' % (pid, pr['firer'], history))
                raise PathEnd()
    return harness


ENC = [CM.BaseComponent.register, CM.BaseComponent.unregister, CM.BaseComponent._do_prepare_unregister_complete,
       CM.BaseComponent._updateRoot, M.Manager.registerChild, M.Manager.unregisterChild, M._EventQueue.drainFrom,
       M.Manager._eventDone, M.Manager.tick]


def canaries():
    from harness.common import mutate
    return [
        ('drainFrom-does-not-clear', 'history', lambda: mutate(M._EventQueue, 'drainFrom', 'other_queue._queue.clear()', 'pass'), None),
        ('updateRoot-not-recursive', 'history', lambda: mutate(CM.BaseComponent, '_updateRoot', 'c._updateRoot(root)', 'pass'), ['structure']),
        ('drain-dropped', 'history', lambda: mutate(M.Manager, 'registerChild', 'self.root._queue.drainFrom(component._queue)', 'pass'), ['probe-lost', 'announcement-count']),
        ('parent-not-reset', 'history', lambda: mutate(CM.BaseComponent, '_do_prepare_unregister_complete', 'self.parent = self', 'pass'), ['structure']),
        ('reroot-cache-not-refreshed', 'warm-forest', lambda: mutate(CM.BaseComponent, '_do_prepare_unregister_complete', 'self._cache_needs_refresh = True', 'pass'), ['probe-crossed-trees']),
        ('unregistered-fired-twice', 'history', lambda: mutate(CM.BaseComponent, '_do_prepare_unregister_complete', 'self.fire(unregistered(self, self.parent))', 'self.fire(unregistered(self, self.parent)); self.fire(unregistered(self, self.parent))'), ['announcement-count']),
    ]


def parts(tier):
    if tier == 'quick':
        return [Part('history', make_harness(3, 5), bounds={'pool': 3, 'history_length': 5, 'ops': 'register/unregister/probe/tick(root)', 'settle_ticks': 10},
                     encoded=ENC, budget_s=90),
                Part('warm-forest', make_harness(3, 4, warm=True),
                     bounds={'pool': 3, 'initial_forest': 'any forest over the pool, every root has dispatched before (caches filled)',
                             'history_length': 4, 'ops': 'register/unregister, settled after each; every component probes at the end'},
                     encoded=ENC + [M.Manager._dispatcher, M.Manager.getHandlers], budget_s=90),
                Part('history-deep', make_harness(2, 8), bounds={'pool': 2, 'history_length': 8, 'ops': 'register/unregister/probe/tick(root)', 'settle_ticks': 10},
                     encoded=ENC, budget_s=90)]
    return [Part('history', make_harness(3, 6), bounds={'pool': 3, 'history_length': 6}, encoded=ENC, budget_s=1800),
            Part('history-4', make_harness(4, 5), bounds={'pool': 4, 'history_length': 5}, encoded=ENC, budget_s=1800),
            Part('warm-forest', make_harness(3, 4, warm=True, settle_choice=True),
                 bounds={'pool': 3, 'initial_forest': 'any', 'history_length': 4, 'ops': 'register/unregister, each optionally settled'},
                 encoded=ENC + [M.Manager._dispatcher, M.Manager.getHandlers], budget_s=1800),
            Part('warm-forest-4', make_harness(4, 4, warm=True),
                 bounds={'pool': 4, 'initial_forest': 'any', 'history_length': 4, 'ops': 'register/unregister, settled after each'},
                 encoded=ENC + [M.Manager._dispatcher, M.Manager.getHandlers], budget_s=1800),
            Part('history-long', make_harness(2, 9), bounds={'pool': 2, 'history_length': 9}, encoded=ENC, budget_s=1800)]


if __name__ == '__main__':
    sys.exit(run_property(sys.modules[__name__]))
