"""A test rig for circuits.web without real sockets: the real HTTP component, a sink standing in for the TCP server
(captures write/close events and answers close with disconnect), an application component and a probe for request events.
Used by C13, C14, C15, C16, C20."""

import errno
import http.client
import io
import socket

from circuits.core.components import BaseComponent
from circuits.core.handlers import handler
from circuits.net.events import disconnect, read
from circuits.web import http as WH


class FakeServer:
    secure = False
    host = '127.0.0.1'
    port = 8000
    display_banner = False
    http = None


class WebSock(socket.socket):
    """socket double (isinstance(x, socket.socket) holds, no descriptor opened)"""

    def __init__(self, label, peer=('10.1.1.1', 5555)):
        self.label = label
        self.peer = peer

    def getpeername(self):
        return self.peer

    def getsockname(self):
        return ('127.0.0.1', 8000)

    def fileno(self):
        return -1

    def close(self):
        pass

    def __repr__(self):
        return '<websock %s>' % self.label

    def __del__(self):
        pass


class Sink(BaseComponent):
    """stands in for the TCP server component on the web channel"""

    channel = 'web'

    def init(self, rig=None):
        self.rig = rig

    @handler('write')
    def _on_write(self, sock, data):
        st = self.rig.conn(sock)
        if st['closed']:
            st['write_after_close'] += 1
        st['out'] += bytes(data)
        st['writes'].append(bytes(data))

    @handler('close')
    def _on_close(self, sock=None):
        st = self.rig.conn(sock)
        st['close_events'] += 1
        if not st['closed']:
            st['closed'] = True
            st['closed_at'] = len(st['out'])
            if self.rig.defer_disconnect:
                # a real server closes only after its write buffer has drained: the disconnect comes later
                st['disconnect_pending'] = True
            else:
                self.fire(disconnect(sock))


class Rig:
    def __init__(self, app_cls=None, app_kwargs=None, extra=()):
        self.root = BaseComponent()
        self.server = FakeServer()
        self.http = WH.HTTP(self.server, channel='web').register(self.root)
        self.server.http = self.http
        self.conns = {}
        self.defer_disconnect = False
        self.requests = []      # probe records
        self.exceptions = []
        self.make_transport()
        rig = self

        class Probe(BaseComponent):
            channel = 'web'

            @handler('request', priority=10)
            def _on_request(self, event, req, res, *a):
                body = req.body.read() if hasattr(req.body, 'read') else req.body
                try:
                    req.body.seek(0)
                except Exception:
                    pass
                rig.requests.append({'sock': req.sock, 'method': req.method, 'path': req.path, 'qs': req.qs,
                                     'protocol': tuple(req.protocol), 'headers': sorted((k.lower(), v) for k, v in req.headers.items()),
                                     'body': body})

            @handler('exception', channel='*', priority=10)
            def _on_exception(self, etype, evalue, tb, handler=None, fevent=None):
                rig.exceptions.append('%s: %s (in %s)' % (getattr(etype, '__name__', etype), evalue, getattr(fevent, 'name', None)))

        self.probe = Probe().register(self.root)
        for c in extra:
            c.register(self.root)
        if app_cls is not None:
            self.app = app_cls(**(app_kwargs or {})).register(self.root)
        self.settle()

    def make_transport(self):
        self.sink = Sink(rig=self).register(self.root)

    def close(self):
        pass

    def conn(self, sock):
        if sock not in self.conns:
            self.conns[sock] = {'out': bytearray(), 'writes': [], 'closed': False, 'closed_at': None, 'close_events': 0,
                                'write_after_close': 0}
        return self.conns[sock]

    def new_sock(self, label='s0'):
        s = WebSock(label)
        self.conn(s)
        return s

    def settle(self, max_ticks=60):
        n = 0
        while (len(self.root._queue) or self.root._tasks) and n < max_ticks:
            self.root.tick()
            n += 1
        return n < max_ticks

    def feed(self, sock, data):
        self.root.fire(read(sock, data), 'web')
        return self.settle()

    def deliver_pending_disconnect(self, sock):
        st = self.conn(sock)
        if st.get('disconnect_pending'):
            st['disconnect_pending'] = False
            self.root.fire(disconnect(sock), 'web')
            return self.settle()
        return True

    def peer_disconnect(self, sock):
        self.root.fire(disconnect(sock), 'web')
        return self.settle()

    def out(self, sock):
        return bytes(self.conn(sock)['out'])


class StackSock(WebSock):
    """connection socket for StackRig: send() accepts what rig.accept(sock, data) says, recv() hands out what was fed"""

    _next_no = [700]

    def __init__(self, label, rig):
        WebSock.__init__(self, label)
        self.rig = rig
        self.inbox = []
        self.eof = False
        self.is_closed = False
        StackSock._next_no[0] += 1
        self.no = StackSock._next_no[0]

    def fileno(self):
        return -1 if self.is_closed else self.no

    def setblocking(self, flag):
        pass

    def recv(self, n):
        if self.is_closed:
            raise OSError(errno.EBADF, 'closed')
        if self.inbox:
            return self.inbox.pop(0)
        if self.eof:
            return b''
        raise OSError(errno.EWOULDBLOCK, 'nothing to read')

    def send(self, data):
        st = self.rig.conn(self)
        if self.is_closed:
            st['write_after_close'] += 1
            raise OSError(errno.EBADF, 'closed')
        k = self.rig.accept(self, bytes(data))
        st['out'] += bytes(data[:k])
        st['writes'].append(bytes(data[:k]))
        return k

    def shutdown(self, how):
        if self.is_closed:
            raise OSError(errno.EBADF, 'closed')

    def close(self):
        if not self.is_closed:
            self.is_closed = True
            st = self.rig.conn(self)
            st['closed'] = True
            st['closed_at'] = len(st['out'])


class StackRig(Rig):
    """like Rig, but with the real TCP server component (circuits.net.sockets.TCPServer on a Select poller that is never
    polled) between the HTTP component and the socket double: responses pass through Server.write/_on_write/_write,
    and `accept(sock, data) -> int` decides how much of each block the OS takes."""

    def __init__(self, app_cls=None, app_kwargs=None, extra=(), accept=None):
        self.accept = accept or (lambda sock, data: len(data))
        Rig.__init__(self, app_cls, app_kwargs, extra)

    def make_transport(self):
        from circuits.core import pollers as PL
        from circuits.net import sockets as SK
        self._PL = PL
        self.poller = PL.Select().register(self.root)
        self.tcp = SK.TCPServer(('127.0.0.1', 0), channel='web').register(self.root)
        rig = self

        class CloseCounter(BaseComponent):
            channel = 'web'

            @handler('close', priority=50)
            def _on_close(self, sock=None):
                if sock is not None:
                    rig.conn(sock)['close_events'] += 1

        CloseCounter().register(self.root)

    def close(self):
        try:
            if self.tcp._sock is not None:
                self.tcp._sock.close()
        except Exception:
            pass
        import os
        for fdn in (self.poller._ctrl_recv, self.poller._ctrl_send):
            try:
                os.close(fdn)
            except Exception:
                pass

    def new_sock(self, label='s0'):
        s = StackSock(label, self)
        self.conn(s)
        self.tcp._on_accept_done(s)
        self.settle()
        return s

    pump = True     # False: responses stay in the TCP server's write buffer until pump_writes() is called

    def settle(self, max_ticks=60):
        ok = Rig.settle(self, max_ticks)
        if not self.pump:
            return ok
        return self.pump_writes(max_ticks) and ok

    def pump_writes(self, max_ticks=60):
        ok = True
        rounds = 0
        while rounds < 400:
            busy = [s for s in list(self.conns) if isinstance(s, StackSock) and not s.is_closed and self.poller.isWriting(s)]
            if not busy:
                break
            for s in busy:
                self.root.fire(self._PL._write(s), 'web')
            ok = Rig.settle(self, max_ticks) and ok
            rounds += 1
        return ok and rounds < 400

    def feed(self, sock, data):
        sock.inbox.append(bytes(data))
        self.root.fire(self._PL._read(sock), 'web')
        return self.settle()

    def peer_disconnect(self, sock):
        sock.eof = True
        self.root.fire(self._PL._read(sock), 'web')
        return self.settle()

    def deliver_pending_disconnect(self, sock):
        return True


class _KeepOpen(io.BytesIO):
    def close(self):
        pass


class _FakeSocket:
    def __init__(self, data):
        self.f = _KeepOpen(data)

    def makefile(self, *a, **k):
        return self.f


def parse_responses(data, methods=None, eof=True):
    """independent parser (http.client): returns list of dict(status, headers, body, raw_len) for the byte string;
    raises ValueError when the bytes are not a sequence of well-formed responses.  `methods`: request method per
    response (HEAD responses have no body)."""
    out = []
    pos = 0
    i = 0
    while pos < len(data):
        f = _FakeSocket(data[pos:])
        method = (methods[i] if methods and i < len(methods) else 'GET')
        r = http.client.HTTPResponse(f, method=method)
        try:
            r.begin()
            body = r.read()
        except Exception as e:
            raise ValueError('response %d not parseable: %r (bytes %r)' % (i, e, data[pos:pos + 80]))
        consumed = f.f.tell()
        will_close = r.will_close
        if r.length is None and not r.chunked and will_close and not eof:
            raise ValueError('response %d is delimited by connection close but the connection was not closed' % i)
        out.append({'status': r.status, 'reason': r.reason, 'headers': [(k.lower(), v) for k, v in r.getheaders()], 'body': body,
                    'will_close': will_close, 'chunked': bool(r.chunked), 'version': r.version})
        pos += consumed
        i += 1
        if will_close:
            if pos < len(data):
                raise ValueError('bytes after a response that announced connection close: %r' % data[pos:pos + 40])
            break
    return out
