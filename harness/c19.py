"""C19 -- node: remote events run once and return their result; peers cannot harm the loop.

Real code: node.protocol.Protocol.add_buffer/send/send_result/result_handler/__process_packet*, node.utils.dump_event/
load_event/dump_value/load_value, and the Manager functions a received event passes through.
Data: cut positions of the packet stream (z3 Ints).  Choices: the event (grammar), number of events in flight, firewall
predicates, hostile packets (JSON mutations and hostile metadata keys computed from the AST of the current source).
"""

import ast
import json
import os
import sys

sys.path.insert(0, os.path.dirname(os.path.dirname(os.path.abspath(__file__))))

from circuits.core.components import BaseComponent  # noqa: E402
from circuits.core.events import Event  # noqa: E402
from circuits.core.handlers import handler  # noqa: E402
from circuits.node import protocol as NP  # noqa: E402
from circuits.node import utils as NU  # noqa: E402

from harness.common import Part, run_property  # noqa: E402
from pathex import PathEnd  # noqa: E402

PROPERTY = 'C19'
EXPLANATION = ('C19: two real Protocol instances (client side and server side), each under its own manager, are wired back to back '
               'through their captured write events; the byte stream between them is cut at symbolic positions; 1-3 events are '
               'in flight; firewalls allow/deny by name; hostile packets (JSON mutations; metadata keys that the dispatcher reads '
               'from events, computed from the AST of manager.py/events.py/values.py on every run, with hostile values) are '
               'injected and the loop must survive and still serve a well-formed event.')
ASSUMPTIONS = ['the transport is reliable and ordered (TCP); only segmentation varies',
               'the sender coroutine Protocol.send() is advanced by the harness the way a yielding handler would be']
OUTSIDE = ['the delimiter ~~~ occurring inside a payload (documented FIXME in the source)', 'Node/Server/Client wiring and reconnects',
           'payload values that are not JSON-representable']

DELIM = b'~~~'


class ping(Event):
    pass


ARGSETS = [
    ((), {}),
    ((1, 'two', [3, {'k': None}]), {}),
    (('x' * 5000,), {'flag': True}),
    ((), {'uni': 'é€', 'n': -1.5}),
]


class Side:
    """one Protocol instance under its own manager; writes are captured"""

    def __init__(self, server_side, recv_fw=None, send_fw=None):
        self.root = BaseComponent()
        self.out = bytearray()
        self.ran = []           # (name, args, kwargs) of handler invocations on this side
        self.exceptions = []
        self.sock = 'sock-token' if server_side else None
        side = self

        class Glue(BaseComponent):
            channel = 'node'

            @handler('write')
            def _on_write(self, *args):
                side.out += bytes(args[-1])

            @handler('feed')
            def _on_feed(self, data):
                # what node.Client / node.Server do in their read handlers
                side.proto.add_buffer(data)

            @handler('exception', channel='*')
            def _on_exc(self, etype, evalue, tb, handler=None, fevent=None):
                side.exceptions.append('%s: %s' % (getattr(etype, '__name__', etype), evalue))

        class App(BaseComponent):
            channel = 'app'

            @handler('ping', 'echo', 'boom', 'zero', 'blank')
            def _on(self, event, *args, **kwargs):
                side.ran.append((event.name, list(args), dict(kwargs)))
                if event.name == 'boom':
                    raise RuntimeError('boom')
                if event.name == 'zero':
                    return 0
                if event.name == 'blank':
                    return ''
                return {'name': event.name, 'args': list(args), 'kwargs': kwargs}

        Glue().register(self.root)
        App().register(self.root)
        kw = {'channel': 'node', 'receive_event_firewall': recv_fw, 'send_event_firewall': send_fw}
        if server_side:
            self.proto = NP.Protocol(sock=self.sock, server=object(), **kw).register(self.root)
        else:
            self.proto = NP.Protocol(**kw).register(self.root)
        self.settle()

    def settle(self, n=20):
        for _ in range(n):
            if not len(self.root._queue) and not self.root._tasks:
                return True
            self.root.tick()
        return False

    def feed(self, data):
        self.root.fire(Event.create('feed', data), 'node')
        return self.settle()

    def take(self):
        d = bytes(self.out)
        del self.out[:]
        return d


def pump(src, dst, cutter):
    """move everything src has written to dst, cut into segments"""
    src.settle()
    data = src.take()
    if not data:
        return False
    for seg in cutter(data):
        if seg:
            dst.feed(seg)
    return True


def make_transport_harness(n_events, max_cuts):
    def harness(g):
        # the class-level table of pending calls is shared by every Protocol instance of the process: start clean
        deny_recv = g.flag('recv_firewall_denies_boom')
        deny_send = g.flag('send_firewall_denies_echo')
        a = Side(False, send_fw=(lambda e, s: e.name != 'echo') if deny_send else None)
        b = Side(True, recv_fw=(lambda e, s: e.name != 'boom') if deny_recv else None)
        n = g.pick('n_events', list(range(1, n_events + 1)))
        evs, gens, results = [], [], {}
        for i in range(n):
            name = g.pick('name%d' % i, ['ping', 'echo', 'boom', 'zero', 'blank'])
            args, kwargs = g.pick('args%d' % i, ARGSETS) if name == 'ping' else ((), {})
            e = Event.create(name, *args, **kwargs)
            e.channels = ('app',)
            if i == 0 and name in ('ping', 'echo') and g.flag('first_without_result'):
                e.node_without_result = True          # fire and forget: the sender does not wait
            evs.append((name, args, kwargs, e))
            gens.append(a.proto.send(e))
        cut_no = [0]

        def cutter(data):
            L = len(data)
            k = g.pick('ncuts%d' % cut_no[0], list(range(0, max_cuts + 1))) if L > 1 else 0
            segs, prev, lo = [], 0, 1
            for j in range(k):
                if lo > L - 1:
                    break
                zone = g.pick('zone%d_%d' % (cut_no[0], j), ['near-delimiter', 'start', 'anywhere-coarse'])
                d = data.find(DELIM, lo - 1)
                if zone == 'near-delimiter' and d >= 0:
                    c = int(g.int('cut%d_%d' % (cut_no[0], j), max(lo, d - 1), min(L - 1, d + 4)))
                elif zone == 'start':
                    c = int(g.int('cut%d_%d' % (cut_no[0], j), lo, min(L - 1, lo + 3)))
                else:
                    c = g.pick('cutc%d_%d' % (cut_no[0], j), [x for x in (L // 3, L // 2, 4096, L - 2) if lo <= x <= L - 1] or [lo])
                segs.append(data[prev:c])
                prev, lo = c, c + 1
            segs.append(data[prev:])
            cut_no[0] += 1
            return segs

        # advance every sender until it has sent its packet (or was refused by the send firewall)
        done = {}
        for rounds in range(12):
            for i, gen in enumerate(gens):
                if i in done:
                    continue
                try:
                    v = next(gen)
                except StopIteration:
                    done[i] = ('stopped', None)
                    continue
                if v is not None:
                    done[i] = ('value', v)
            moved = pump(a, b, cutter)
            moved = pump(b, a, cutter) or moved
            if len(done) == n and not moved:
                break
        g.note({'events': [(x[0], str(x[1])[:30]) for x in evs], 'deny_recv_boom': deny_recv, 'deny_send_echo': deny_send})
        detail = 'events=%s deny_recv=%s deny_send=%s ran_on_peer=%s exceptions=%s/%s' % (
            [(x[0], str(x[1])[:20], x[2]) for x in evs], deny_recv, deny_send, [(r[0], str(r[1])[:20]) for r in b.ran], a.exceptions[:1], b.exceptions[:1])
        w = {'n_events': n}
        expected_runs = []
        for i, (name, args, kwargs, e) in enumerate(evs):
            sent = not (deny_send and name == 'echo')
            runs = sent and not (deny_recv and name == 'boom')
            if runs:
                expected_runs.append((name, json.loads(json.dumps(list(args))), json.loads(json.dumps(kwargs))))
            st = done.get(i)
            if st is None:
                g.fail('sender-never-resumed', dict(w, event=name), 'event %d; %s' % (i, detail))
                continue
            if not sent:
                # refused by the send firewall: never transmitted, the sender gets an empty Value at once
                continue
            if getattr(e, 'node_without_result', False):
                continue      # nothing is awaited
            if st[0] != 'value':
                g.fail('sender-got-no-value', dict(w, event=name), 'event %d: %s; %s' % (i, st, detail))
                continue
            v = st[1]
            val = v.value if hasattr(v, 'value') else v
            if runs and name != 'boom':
                exp = {'name': name, 'args': json.loads(json.dumps(list(args))), 'kwargs': json.loads(json.dumps(kwargs))}
                if name == 'zero':
                    exp = 0
                elif name == 'blank':
                    exp = ''
                if val != exp or type(val) is not type(exp):
                    g.fail('wrong-result', dict(w, event=name), 'event %d got %r expected %r; %s' % (i, str(val)[:200], str(exp)[:200], detail))
            if runs and name == 'boom':
                if not getattr(e, 'errors', False) and not getattr(v, 'errors', False):
                    g.fail('error-flag-lost', dict(w, event=name), 'event %d value %r; %s' % (i, str(val)[:100], detail))
        got_runs = sorted(b.ran, key=repr)
        if got_runs != sorted(expected_runs, key=repr):
            missing = len(expected_runs) - len(got_runs)
            clause = 'remote-event-lost' if missing > 0 else ('remote-event-duplicated' if missing < 0 else 'remote-event-differs')
            g.fail(clause, w, 'peer ran %s, expected %s; %s' % ([(r[0], str(r[1])[:20]) for r in got_runs], [(r[0], str(r[1])[:20]) for r in expected_runs], detail))
        other = [x for x in a.exceptions + b.exceptions if 'boom' not in x]
        if other:
            g.fail('unexpected-exception', w, '%s; %s' % (other[:2], detail))
    return harness


def make_bidirectional_harness():
    """both peers send at the same time (call ids of the two directions coincide)"""
    def harness(g):
        a = Side(False)
        b = Side(True)
        na = g.pick('name_a', ['ping', 'echo'])
        nb = g.pick('name_b', ['ping', 'echo'])
        ea = Event.create(na, 'from-a')
        ea.channels = ('app',)
        eb = Event.create(nb, 'from-b')
        eb.channels = ('app',)
        first = g.pick('first', ['a', 'b'])
        gens = {'a': a.proto.send(ea), 'b': b.proto.send(eb)}
        done = {}
        order = [first, 'b' if first == 'a' else 'a']
        for _ in range(10):
            for k in order:
                if k in done:
                    continue
                try:
                    v = next(gens[k])
                except StopIteration:
                    done[k] = None
                    continue
                except Exception as e:  # noqa
                    g.fail('sender-crashed', {'bidirectional': True}, 'a sends %s, b sends %s, first=%s: %r raised inside Protocol.send of %s' % (na, nb, first, e, k))
                    raise PathEnd()
                if v is not None:
                    done[k] = v
            moved = pump(a, b, lambda d: [d])
            moved = pump(b, a, lambda d: [d]) or moved
            if len(done) == 2 and not moved:
                break
        g.note({'a_sends': na, 'b_sends': nb, 'first': first})
        detail = 'a sends %s, b sends %s, first=%s: ran on b %s, ran on a %s, results %s' % (na, nb, first, b.ran, a.ran, {k: str(getattr(v, 'value', v))[:60] for k, v in done.items()})
        for k, name, tag in (('a', na, 'from-a'), ('b', nb, 'from-b')):
            v = done.get(k)
            if v is None:
                g.fail('sender-never-resumed', {'bidirectional': True}, detail)
                continue
            val = v.value if hasattr(v, 'value') else v
            if val != {'name': name, 'args': [tag], 'kwargs': {}}:
                g.fail('results-mixed-up', {'bidirectional': True}, detail)
        if b.ran != [(na, ['from-a'], {})] or a.ran != [(nb, ['from-b'], {})]:
            g.fail('remote-event-differs', {'bidirectional': True}, detail)
    return harness


def event_attribute_names():
    """attribute names that manager.py / events.py / values.py read from or set on an event: computed from the current source"""
    import circuits.core.events as E
    import circuits.core.manager as M
    import circuits.core.values as V
    names = set()
    for mod in (M, E, V):
        tree = ast.parse(open(mod.__file__).read())
        for node in ast.walk(tree):
            if isinstance(node, ast.Attribute) and isinstance(node.value, ast.Name) and node.value.id in ('event', 'e', 'fevent', 'self'):
                if node.value.id != 'self' or mod is E:
                    names.add(node.attr)
            if isinstance(node, ast.Call) and isinstance(node.func, ast.Name) and node.func.id in ('getattr', 'hasattr', 'setattr', 'delattr'):
                if len(node.args) >= 2 and isinstance(node.args[1], ast.Constant) and isinstance(node.args[1].value, str):
                    names.add(node.args[1].value)
    return sorted(n for n in names if not n.startswith('__'))


HOSTILE_VALUES = [1, 'x', None, [], {'a': 1}, True, -1]
# event attributes Manager._fire/_dispatcher/_eventDone set and rely on (not part of the wire format)
DISPATCHER_OWNED = {'cause', 'effects', 'complete_channels', 'success_channels', 'waitingHandlers', 'alert_done', 'handler', 'value', 'stopped', 'cancelled', 'parent'}


def make_hostile_harness():
    keys = event_attribute_names()

    def harness(g):
        b = Side(True)
        kind = g.pick('kind', ['meta-key', 'json-mutation'])
        base = {'id': 7, 'name': 'ping', 'args': [1], 'kwargs': {}, 'success': True, 'failure': False, 'channels': ['app'], 'notify': False, 'meta': {}}
        if kind == 'meta-key':
            k1 = g.pick('key1', keys)
            v1 = g.pick('val1', HOSTILE_VALUES)
            base['meta'][k1] = v1
            if g.flag('second_key'):
                k2 = g.pick('key2', ['cause', 'effects', 'complete', 'complete_channels', 'waitingHandlers', 'value', 'channels', 'handler', 'alert_done'])
                base['meta'][k2] = g.pick('val2', HOSTILE_VALUES)
            packet = json.dumps(base).encode()
            what = 'meta=%s' % base['meta']
        else:
            m = g.pick('mutation', ['truncated', 'not-json', 'wrong-types', 'missing-keys', 'invalid-utf8', 'list-top', 'huge-id', 'value-packet-unknown-id',
                                    'value-packet-bad-meta', 'name-not-str', 'channels-not-list', 'args-not-list', 'empty', 'nested-deep'])
            good = json.dumps(base).encode()
            packet = {
                'truncated': good[:len(good) // 2],
                'not-json': b'{not json',
                'wrong-types': json.dumps(dict(base, args='abc', kwargs=[1, 2])).encode(),
                'missing-keys': json.dumps({'id': 1}).encode(),
                'invalid-utf8': b'\xff\xfe{"id": 1}',
                'list-top': b'[1, 2, 3]',
                'huge-id': json.dumps(dict(base, id=10 ** 30)).encode(),
                'value-packet-unknown-id': json.dumps({'id': 99, 'errors': False, 'value': 1, 'meta': {}}).encode(),
                'value-packet-bad-meta': json.dumps({'id': 0, 'errors': False, 'value': 1, 'meta': 5}).encode(),
                'name-not-str': json.dumps(dict(base, name=5)).encode(),
                'channels-not-list': json.dumps(dict(base, channels=5)).encode(),
                'args-not-list': json.dumps(dict(base, args=5)).encode(),
                'empty': b'',
                'nested-deep': json.dumps(dict(base, args=[[[[[[[[1]]]]]]]])).encode(),
            }[m]
            what = 'mutation=%s' % m
        g.note({'hostile': what})
        w = {'kind': kind}
        if kind == 'meta-key':
            w['keys'] = '+'.join(sorted(base['meta']))
        if kind == 'meta-key':
            # attributes the dispatcher maintains itself must not be taken over from the peer
            try:
                ev, _id = NU.load_event(packet.decode())
                for k in base['meta']:
                    if k in DISPATCHER_OWNED and getattr(ev, k, '<absent>') == base['meta'][k] and getattr(Event(), k, '<absent>') != base['meta'][k]:
                        g.fail('dispatcher-attribute-overwritten', dict(w, key=k), '%s: event.%s is now %r' % (what, k, base['meta'][k]))
            except (TypeError, ValueError, LookupError):
                pass
        try:
            ok = b.feed(packet + DELIM)
        except BaseException as e:  # noqa
            g.fail('hostile-packet-stops-the-loop', w, '%s: %r escaped add_buffer/tick' % (what, e))
            raise PathEnd()
        if not ok:
            g.fail('loop-never-settles', w, what)
            raise PathEnd()
        # a following well-formed event is still served
        n_before = len(b.ran)
        good = dict(base, id=8, meta={}, name='echo', args=['after'])
        try:
            b.feed(json.dumps(good).encode() + DELIM)
        except BaseException as e:  # noqa
            g.fail('hostile-packet-stops-the-loop', w, '%s: follow-up raised %r' % (what, e))
            raise PathEnd()
        if ('echo', ['after'], {}) not in b.ran[n_before:]:
            g.fail('well-formed-event-not-served-afterwards', w, '%s; ran=%s exceptions=%s' % (what, b.ran, b.exceptions[:2]))
    return harness


def make_roundtrip_harness():
    def harness(g):
        name = g.pick('name', ['ping', 'a_b', 'x'])
        args, kwargs = g.pick('args', ARGSETS)
        e = Event.create(name, *args, **kwargs)
        e.success = g.flag('success')
        e.failure = g.flag('failure')
        e.notify = g.flag('notify')
        e.channels = g.pick('channels', [('app',), ('a', 'b'), ()])
        s = NU.dump_event(e, 5)
        e2, id2 = NU.load_event(s)
        g.note({'name': name, 'channels': e.channels})
        ok = (id2 == 5 and e2.name == name and e2.args == json.loads(json.dumps(list(args))) and e2.kwargs == json.loads(json.dumps(kwargs))
              and tuple(e2.channels) == tuple(e.channels) and (e2.success, e2.failure, e2.notify) == (e.success, e.failure, e.notify))
        if not ok:
            g.fail('serialisation-round-trip', {}, 'dump/load: %r -> %r %r %r %r' % (s[:120], e2.name, e2.args, e2.kwargs, e2.channels))
    return harness


ENC = [NP.Protocol.add_buffer, NP.Protocol.send, NP.Protocol.send_result, NP.Protocol.result_handler, NU.dump_event, NU.load_event, NU.dump_value, NU.load_value]


def canaries():
    from harness.common import mutate
    return [
        ('falsy-result-dropped', 'transport', lambda: mutate(NP.Protocol, '_Protocol__process_packet_value', 'ev.value.setValue(value)', 'value and ev.value.setValue(value)'), None),
        ('receive-firewall-ignored', 'transport', lambda: mutate(NP.Protocol, '_Protocol__process_packet_call', 'if self.__receive_event_firewall and not', 'if False and not'), None),
        ('meta-exclusion-dropped', 'hostile', lambda: mutate(NU, 'load_event', "if k.startswith('__') or k in META_EXCLUDE:", "if k.startswith('__'):"), None),
    ]


def parts(tier):
    q = tier == 'quick'
    return [
        Part('transport', make_transport_harness(2, 1), bounds={'events_in_flight': 2, 'cuts_per_transfer': 1, 'cut_zones': 'around every delimiter (z3 Int), at the start (z3 Int), coarse positions',
                                                                                 'args': 'empty / nested JSON / 5000-char string / unicode+float', 'firewalls': 'allow all or deny one name (send, receive)'},
             encoded=ENC, budget_s=85 if q else 2400),
    ] + ([] if q else [
        Part('transport-two-cuts', make_transport_harness(1, 2), bounds={'events_in_flight': 1, 'cuts_per_transfer': 2}, encoded=ENC, budget_s=1200),
    ]) + [
        Part('hostile', make_hostile_harness(), bounds={'meta_keys': 'every attribute name manager.py/events.py/values.py read from an event (AST of the current source)', 'values': [repr(v) for v in HOSTILE_VALUES],
                                                        'json_mutations': 14}, encoded=[NP.Protocol.add_buffer, NU.load_event, NU.load_value], budget_s=85 if q else 900),
        Part('bidirectional', make_bidirectional_harness(), bounds={'directions': 'both peers send one event at the same time', 'names': ['ping', 'echo']}, encoded=[NP.Protocol.send, NP.Protocol.add_buffer], budget_s=30),
        Part('roundtrip', make_roundtrip_harness(), bounds={'names': 3, 'argsets': len(ARGSETS), 'flags': 'success x failure x notify', 'channels': 3}, encoded=[NU.dump_event, NU.load_event], budget_s=30),
    ]


if __name__ == '__main__':
    sys.exit(run_property(sys.modules[__name__]))
