"""C04 -- handler results, success/failure/exception feedback, error isolation.

Real code: Manager._dispatcher (try/except, value handling), _eventDone, processTask, tick,
Value.setValue/getValue/inform, Event.child.  Choices: per-handler shape, feedback flags.
"""

import os
import sys

sys.path.insert(0, os.path.dirname(os.path.dirname(os.path.abspath(__file__))))

from circuits.core import manager as M  # noqa: E402
from circuits.core import values as V  # noqa: E402
from circuits.core.components import BaseComponent  # noqa: E402
from circuits.core.events import Event  # noqa: E402
from circuits.core.handlers import handler  # noqa: E402

from harness.common import Part, run_property  # noqa: E402
from pathex import PathEnd  # noqa: E402

PROPERTY = 'C04'
EXPLANATION = ('C04: each handler of an event draws its shape (return / None / falsy / raise / generator yielding k values / '
               'generator raising at step j) and the event its feedback flags; the real dispatcher and task machinery run to '
               'quiescence and the Value, the exception/failure/success events and their order are compared with a ghost log.')
ASSUMPTIONS = [
    'single thread, manager not running: stepped with fire()/tick()',
    'handler priorities are pairwise distinct so that the production order of synchronous results is defined',
    'the order in which several suspended generator handlers are advanced in one tick is left open (ghost log records the actual production order)',
]
OUTSIDE = [
    'results that are themselves lists (aliasing of a first list-typed result) and Value objects returned as results',
    'more than the stated number of handlers; nesting deeper than one level',
]


class MyErr(Exception):
    pass


class MyBaseErr(BaseException):
    """not derived from Exception: the dispatcher and the task runner must isolate it all the same"""


class ev(Event):
    pass


class ev2(Event):
    pass


SHAPES = ['ret', 'none', 'raise', 'gen1', 'gen2', 'gen0', 'gen1_raise', 'gen_raise0', 'falsy0', 'gen_none_then1', 'falsy_empty', 'raise_base', 'gen1_raise_base']


def make_harness(n_handlers, shapes, with_channels=True, two_events=True, max_ticks=14):
    def harness(g):
        log = []

        def produce(j, v):
            log.append(('produce', j, v))
            return v

        def run_shape(j, shape):
            """returns the handler's result (plain value or generator)"""
            log.append(('start', j))
            if shape == 'ret':
                log.append(('end', j))
                return produce(j, ('r', j))
            if shape == 'none':
                log.append(('end', j))
                return None
            if shape == 'falsy0':
                log.append(('end', j))
                return produce(j, 0)
            if shape == 'falsy_empty':
                log.append(('end', j))
                return produce(j, '')
            if shape in ('raise', 'raise_base'):
                log.append(('produce', j, 'ERR'))
                log.append(('raised', j))
                raise (MyErr if shape == 'raise' else MyBaseErr)(j)

            def gen():
                if shape == 'gen0':
                    log.append(('end', j))
                    return
                    yield  # pragma: no cover
                if shape == 'gen_raise0':
                    log.append(('produce', j, 'ERR'))
                    log.append(('raised', j))
                    raise MyErr(j)
                if shape == 'gen_none_then1':
                    yield None
                yield produce(j, ('y', j, 0))
                if shape == 'gen2':
                    yield produce(j, ('y', j, 1))
                if shape in ('gen1_raise', 'gen1_raise_base'):
                    log.append(('produce', j, 'ERR'))
                    log.append(('raised', j))
                    raise (MyErr if shape == 'gen1_raise' else MyBaseErr)(j)
                log.append(('end', j))
            return gen()

        shape_of = {}
        ns = {}
        for j in range(n_handlers):
            def mk(j):
                def h(self, event):
                    if j not in shape_of:
                        shape_of[j] = g.pick('shape_h%d' % j, shapes)
                    return run_shape(j, shape_of[j])
                h.__name__ = 'h%d' % j
                return handler('ev', priority=10 - j)(h)
            ns['h%d' % j] = mk(j)

        def h_ev2(self, event):
            log.append(('later-start',))
            yield ('later', 0)
            log.append(('later-end',))
        ns['h_ev2'] = handler('ev2')(h_ev2)
        Comp = type('Comp', (BaseComponent,), ns)

        class Obs(BaseComponent):
            channel = 'obs'

            @handler('ev_success', channel='*')
            def _s(self, e, value):
                log.append(('success', e, value))

            @handler('ev_failure', channel='*')
            def _f(self, e, err):
                log.append(('failure', e, err))

            @handler('exception', channel='*')
            def _x(self, etype, evalue, tb, handler=None, fevent=None):
                log.append(('exception', etype, evalue, fevent))

            @handler('ev_value_changed', channel='*')
            def _vc(self, value):
                log.append(('value_changed', value))

            @handler('ev2_success', channel='*')
            def _s2(self, e, value):
                log.append(('success2', e, value))

        comp = Comp()
        obs = Obs().register(comp)
        comp.flush()
        del log[:]

        want_success = g.flag('success')
        want_failure = g.flag('failure')
        notify = g.flag('notify')
        succ_chan = g.flag('success_channels') if (with_channels and want_success) else False
        e = ev()
        e.success = want_success
        e.failure = want_failure
        e.notify = notify
        if succ_chan:
            e.success_channels = ('obs',)
        value = comp.fire(e)
        e2 = None
        if two_events:
            e2 = ev2()
            e2.success = True
            value2 = comp.fire(e2)
        ticks = 0
        escaped = None
        while (len(comp._queue) or comp._tasks) and ticks < max_ticks:
            try:
                comp.tick()
            except BaseException as exc:  # noqa
                escaped = exc
                break
            ticks += 1
        w = {}
        flags = 'S%dF%dN%d' % (want_success, want_failure, notify)
        shapes_s = [shape_of.get(j) for j in range(n_handlers)]
        raisers = [j for j in range(n_handlers) if shape_of.get(j) in ('raise', 'gen1_raise', 'gen_raise0', 'raise_base', 'gen1_raise_base')]
        gens = [j for j in range(n_handlers) if str(shape_of.get(j)).startswith('gen')]
        w['has_raiser'] = bool(raisers)
        w['has_generator'] = bool(gens)
        w['raiser_is_generator'] = any(str(shape_of.get(j)).startswith('gen') for j in raisers)
        w['base_exception'] = any(str(shape_of.get(j)).endswith('_base') for j in raisers)
        detail = 'shapes=%s flags=%s log=%s' % (shapes_s, flags, [x[:3] for x in log if x[0] not in ('value_changed',)][:40])
        g.note({'shapes': shapes_s, 'flags': flags, 'value': repr(value.value)[:80]})

        if escaped is not None:
            g.fail('exception-escaped-the-loop', w, '%r; %s' % (escaped, detail))
            raise PathEnd()
        if len(comp._queue) or comp._tasks:
            g.fail('never-quiescent', w, detail)
            raise PathEnd()
        # error isolation: every handler ran, the later event ran
        started = [x[1] for x in log if x[0] == 'start']
        if sorted(started) != list(range(n_handlers)):
            g.fail('handler-skipped-or-repeated', w, detail)
        if two_events:
            if [x for x in log if x[0] == 'later-end'] != [('later-end',)] or value2.value != ('later', 0):
                g.fail('later-event-disturbed', w, detail + ' value2=%r' % (value2.value,))
            if len([x for x in log if x[0] == 'success2']) != 1:
                g.fail('later-event-feedback', w, detail)
        # value
        produced = [x for x in log if x[0] == 'produce']

        def same(item, p):
            if p[2] == 'ERR':
                return isinstance(item, tuple) and len(item) == 3 and item[0] in (MyErr, MyBaseErr) and getattr(item[1], 'args', None) == (p[1],)
            return type(item) is type(p[2]) and item == p[2]
        got = value.value
        if len(produced) == 0:
            okv = got is None
        elif len(produced) == 1:
            okv = same(got, produced[0])
        else:
            okv = isinstance(got, list) and len(got) == len(produced) and all(same(a, b) for a, b in zip(got, produced))
        if not okv:
            g.fail('value', w, detail + ' value=%r' % (got,))
        if bool(value.errors) != bool(raisers):
            g.fail('errors-flag', w, detail + ' errors=%r' % (value.errors,))
        # exception / failure / success events
        exc = [x for x in log if x[0] == 'exception' and x[3] is e]
        if len(exc) != len(raisers) or sorted(x[2].args[0] for x in exc) != sorted(raisers):
            g.fail('exception-event-count', w, detail)
        other_exc = [x for x in log if x[0] == 'exception' and x[3] is not e]
        if other_exc:
            g.fail('unexpected-exception', w, detail + ' %r' % (other_exc[:2],))
        fail = [x for x in log if x[0] == 'failure']
        if len(fail) != (len(raisers) if want_failure else 0):
            g.fail('failure-event-count', w, detail)
        succ = [i for i, x in enumerate(log) if x[0] == 'success']
        expect_succ = 1 if (want_success and not raisers) else 0
        if len(succ) != expect_succ:
            g.fail('success-event-count', w, detail)
        elif succ:
            last_end = max([i for i, x in enumerate(log) if x[0] in ('end', 'raised', 'produce', 'start')] or [-1])
            if succ[0] < last_end:
                g.fail('success-too-early', w, detail)
            sv = log[succ[0]]
            if sv[1] is not e:
                g.fail('success-wrong-event', w, detail)
    return harness


ENC = [M.Manager._dispatcher, M.Manager._eventDone, M.Manager.processTask, M.Manager.tick, V.Value.setValue,
       V.Value.getValue, V.Value.inform, Event.child]


def canaries():
    from harness.common import mutate
    return [
        ('success-despite-error', 'shapes', lambda: mutate(M.Manager, '_eventDone', 'if err is None and not event.value.errors and event.success:', 'if event.success:'), ['success-event-count']),
        ('no-exception-event-for-generators', 'shapes', lambda: mutate(M.Manager, 'processTask', 'self.fire(exception(*err, handler=None, fevent=event))', 'pass'), ['exception-event-count']),
        ('setvalue-drops-second', 'shapes', lambda: mutate(V.Value, 'value', 'self._value = [self._value]\n        self._value.append(value)', 'self._value = [self._value]', accessor='fset'), ['value']),
        ('success-before-generators', 'shapes', lambda: mutate(M.Manager, '_eventDone', 'if event.waitingHandlers:\n        return', 'if event.waitingHandlers and not event.success:\n        return'), ['success-too-early', 'success-event-count', 'later-event-feedback']),
        ('errors-flag-lost', 'shapes', lambda: mutate(M.Manager, '_dispatcher', 'event.value.errors = True', 'event.value.errors = bool(event.failure)'), ['errors-flag']),
    ]


def parts(tier):
    if tier == 'quick':
        return [Part('shapes', make_harness(3, SHAPES), bounds={'handlers': 3, 'shapes': SHAPES, 'flags': 'success x failure x notify x success_channels', 'second_event_in_flight': True},
                     encoded=ENC, budget_s=70)]
    return [Part('shapes', make_harness(4, SHAPES), bounds={'handlers': 4, 'shapes': SHAPES, 'flags': 'success x failure x notify x success_channels', 'second_event_in_flight': True},
                 encoded=ENC, budget_s=1200)]


if __name__ == '__main__':
    sys.exit(run_property(sys.modules[__name__]))
