"""A stub *kernel* for circuits.core.pollers: a module-like object replacing `select` in that module.

It keeps an open-file table (number -> FdObj), and implements select(), poll() and epoll() objects with the
registration semantics of Linux (documented per method).  Readiness is scripted per open file by the harness.
tools/validate_stubkernel.py runs fixed histories against this stub and the real kernel side by side.
"""

import errno

POLLIN, POLLPRI, POLLOUT, POLLERR, POLLHUP, POLLNVAL = 1, 2, 4, 8, 16, 32


class FdObj:
    """an open file / socket as the poller sees it: has fileno(); closing frees the number"""

    def __init__(self, kernel, label):
        self.kernel = kernel
        self.label = label
        self.no = kernel._alloc(self)
        self.closed = False
        self.readable = False
        self.writable = False
        self.hup = False
        self.err = False

    def fileno(self):
        return -1 if self.closed else self.no

    def close(self):
        if not self.closed:
            self.closed = True
            self.kernel._release(self)

    def __repr__(self):
        return '<fd %s #%s%s>' % (self.label, self.no, ' closed' if self.closed else '')


def _fileno(x):
    if isinstance(x, int):
        return x
    return x.fileno()


class _Poll:
    """select.poll(): user-space table number -> mask.  register() of a registered fd replaces the mask;
    unregister() of an unknown fd raises KeyError; a negative fd raises ValueError; poll() reports POLLNVAL for a
    registered number that is not open, and HUP/ERR regardless of the mask."""

    def __init__(self, kernel):
        self.k = kernel
        self.table = {}
        kernel.pollers.append(self)

    def register(self, fd, mask=POLLIN | POLLPRI | POLLOUT):
        n = _fileno(fd)
        if n < 0:
            raise ValueError('file descriptor cannot be a negative integer (-1)')
        self.table[n] = mask

    def modify(self, fd, mask):
        n = _fileno(fd)
        if n not in self.table:
            raise OSError(errno.ENOENT, 'No such file or directory')
        self.table[n] = mask

    def unregister(self, fd):
        n = _fileno(fd)
        if n < 0:
            raise ValueError('file descriptor cannot be a negative integer (-1)')
        del self.table[n]      # KeyError if unknown, like the real one

    def poll(self, timeout=None):
        self.k.poll_calls.append(('poll', timeout))
        out = []
        for n in sorted(self.table):
            mask = self.table[n]
            o = self.k.open.get(n)
            if o is None and n < self.k.first_free:
                o = self.k.adopt_ctrl(n)
            if o is None:
                out.append((n, POLLNVAL))
                continue
            ev = self.k._events(o, mask)
            if ev:
                out.append((n, ev))
        return out


class _EPoll:
    """select.epoll(): kernel table keyed by open file.  register() of a registered fd -> FileExistsError(EEXIST);
    of a number that is not open -> OSError(EBADF); unregister() of an open but unregistered fd -> FileNotFoundError
    (ENOENT), of a number that is not open -> OSError(EBADF); negative -> ValueError.  Closing a file removes it from
    the table automatically.  HUP/ERR are reported regardless of the mask."""

    def __init__(self, kernel):
        self.k = kernel
        self.table = {}     # number -> (FdObj, mask)
        kernel.epollers.append(self)

    def _check(self, fd):
        n = _fileno(fd)
        if n < 0:
            raise ValueError('file descriptor cannot be a negative integer (-1)')
        if n not in self.k.open:
            if n < self.k.first_free:
                self.k.adopt_ctrl(n)        # a real descriptor of the process (the poller's control pipe)
            else:
                raise OSError(errno.EBADF, 'Bad file descriptor')
        return n

    def register(self, fd, mask=POLLIN | POLLPRI | POLLOUT):
        n = self._check(fd)
        if n in self.table:
            raise FileExistsError(errno.EEXIST, 'File exists')
        self.table[n] = (self.k.open[n], mask)

    def modify(self, fd, mask):
        n = self._check(fd)
        if n not in self.table:
            raise FileNotFoundError(errno.ENOENT, 'No such file or directory')
        self.table[n] = (self.k.open[n], mask)

    def unregister(self, fd):
        n = self._check(fd)
        if n not in self.table:
            raise FileNotFoundError(errno.ENOENT, 'No such file or directory')
        del self.table[n]

    def _closed(self, o):
        for n, (obj, mask) in list(self.table.items()):
            if obj is o:
                del self.table[n]

    def poll(self, timeout=None, maxevents=-1):
        self.k.poll_calls.append(('epoll', timeout))
        out = []
        for n in sorted(self.table):
            o, mask = self.table[n]
            ev = self.k._events(o, mask)
            if ev:
                out.append((n, ev))
        return out

    def close(self):
        self.table.clear()


class StubKernel:
    """stands in for the `select` module inside circuits.core.pollers"""

    POLLIN, POLLPRI, POLLOUT, POLLERR, POLLHUP, POLLNVAL = POLLIN, POLLPRI, POLLOUT, POLLERR, POLLHUP, POLLNVAL
    EPOLLIN, EPOLLPRI, EPOLLOUT, EPOLLERR, EPOLLHUP = POLLIN, POLLPRI, POLLOUT, POLLERR, POLLHUP
    error = OSError

    def __init__(self, first_free=10):
        self.open = {}        # number -> FdObj
        self.first_free = first_free
        self.pollers = []
        self.epollers = []
        self.poll_calls = []
        self.ctrl = {}        # numbers of real control pipes (always "not readable" here)

    # -- open file table ----------------------------------------------------
    def _alloc(self, o):
        n = self.first_free
        while n in self.open:
            n += 1
        self.open[n] = o
        return n

    def _release(self, o):
        if self.open.get(o.no) is o:
            del self.open[o.no]
        for ep in self.epollers:
            ep._closed(o)

    def new_fd(self, label):
        return FdObj(self, label)

    def _events(self, o, mask):
        if isinstance(o, _Ctrl):
            return 0
        ev = 0
        if o.readable and mask & POLLIN:
            ev |= POLLIN
        if o.writable and mask & POLLOUT:
            ev |= POLLOUT
        if o.hup:
            ev |= POLLHUP
        if o.err:
            ev |= POLLERR
        return ev

    def adopt_ctrl(self, number):
        """the poller's real control pipe: known to the kernel as an open, never-ready file"""
        c = _Ctrl(number)
        self.open[number] = c
        return c

    # -- the three system calls ------------------------------------------------
    def select(self, rlist, wlist, xlist, timeout=None):
        """select(): a closed object (fileno() == -1) -> ValueError; a number that is not open -> OSError(EBADF);
        a hung-up or failed socket is reported readable (recv would not block) and, when failed, writable"""
        self.poll_calls.append(('select', timeout))
        for x in list(rlist) + list(wlist) + list(xlist):
            n = _fileno(x)
            if n < 0:
                raise ValueError('file descriptor cannot be a negative integer (-1)')
            if n not in self.open:
                if n < self.first_free:
                    self.adopt_ctrl(n)
                else:
                    raise OSError(errno.EBADF, 'Bad file descriptor')
        r, w = [], []
        for x in rlist:
            o = self.open[_fileno(x)]
            if isinstance(o, _Ctrl):
                continue
            if o.readable or o.hup or o.err:
                r.append(x)
        for x in wlist:
            o = self.open[_fileno(x)]
            if isinstance(o, _Ctrl):
                continue
            if o.writable or o.err:
                w.append(x)
        return r, w, []

    def poll(self):
        return _Poll(self)

    def epoll(self, *a, **k):
        return _EPoll(self)


class _Ctrl:
    readable = writable = hup = err = False

    def __init__(self, no):
        self.no = no
