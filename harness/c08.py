"""C08 -- run()/stop(): started once, everything queued is drained, stopped once.

The real Manager.run() is executed in the checking thread.  Choices: where and how the loop is stopped, the chains of
follow-up events, the number of run cycles.  Data: the exit code (z3 Int) compared with what run() raises.
Real code: Manager.run/stop/tick/_dispatcher (SystemExit/KeyboardInterrupt mapping)/processTask (same),
FallBackGenerator._on_generate_events, generate_events.reduce_time_left.
"""

import os
import sys
import threading

sys.path.insert(0, os.path.dirname(os.path.dirname(os.path.abspath(__file__))))

from circuits.core import helpers as HP  # noqa: E402
from circuits.core import manager as M  # noqa: E402
from circuits.core.components import BaseComponent  # noqa: E402
from circuits.core.events import Event  # noqa: E402
from circuits.core.handlers import handler  # noqa: E402

from harness import doubles  # noqa: E402
from harness.common import Part, run_property  # noqa: E402
from pathex import PathEnd  # noqa: E402

PROPERTY = 'C08'
EXPLANATION = ('C08: the real run() loop is executed with a program of chained events; where (started / mid-chain / generator step / '
               'second thread at the idle wait) and how (stop(), stop(code), SystemExit(code), SystemExit(), KeyboardInterrupt) it '
               'is stopped, the lengths of the chains fired before/after stopping and by the `stopped` handler, and a second run '
               'cycle are choices; the exit code is a z3 Int.  The dispatch log and the outcome of run() are checked.')
ASSUMPTIONS = [
    'signal handler installation and atexit registration are no-ops',
    'the idle wait is a double: a timed wait returns at once; the untimed wait is where the scripted second thread (a real '
    'thread) calls stop(); if nothing is scripted there the loop would block for ever, which the harness reports',
    'handler code placed after a stop(code) call is not expected to run (stop(code) raises SystemExit by contract)',
]
OUTSIDE = ['process mode (start(process=True)), signals', 'the exit code of a manager launched with start() (a thread has nobody to raise it to)', 'chains longer than the bounds']


class step(Event):
    pass


class after(Event):
    pass


class tail(Event):
    pass


class _NoAtexit:
    @staticmethod
    def register(*a, **k):
        return None


class Controller:
    def __init__(self):
        self.thread_action = None
        self.hang = False
        self.app = None
        self.thread_result = None

    def on_wait(self, timeout):
        if timeout is None or (type(timeout) is int and timeout == 10000):
            act, self.thread_action = self.thread_action, None
            if act is None:
                # nobody will ever wake the loop: report and get out
                self.hang = True
                self.app._running = False
                raise doubles.Abort()
            res = {}

            def target():
                try:
                    act()
                    res['ok'] = True
                except SystemExit as e:
                    res['exit'] = e.code
            t = threading.Thread(target=target)
            t.start()
            t.join()
            self.thread_result = res
        # timed wait: returns at once


HOWS = ['stop', 'stop_code', 'sysexit_code', 'sysexit_none', 'kbdint']


def make_harness(cycles, chain_max, after_options, tail_options, placements, via_start=False):
    def harness(g):
        ctl = Controller()
        saved = (M.set_signal_handler, M.atexit)
        M.set_signal_handler = lambda *a, **k: None
        M.atexit = _NoAtexit
        doubles.install_event_double(ctl)
        try:
            body(g, ctl)
        finally:
            doubles.uninstall_all()
            M.set_signal_handler, M.atexit = saved

    def body(g, ctl):
        log = []               # ('h', event-name, arg, cycle)
        fired = []             # (name, arg, cycle)
        cur = {'cycle': 0, 'prog': None, 'stopped_calls': 0}

        def do_stop(self, how, code):
            cur['stopped_calls'] += 1
            if how == 'stop':
                self.stop()
            elif how == 'stop_code':
                self.stop(code)
            elif how == 'sysexit_code':
                raise SystemExit(code)
            elif how == 'sysexit_none':
                raise SystemExit()
            elif how == 'kbdint':
                raise KeyboardInterrupt()

        def fire(self, ev, name, arg):
            fired.append((name, arg, cur['cycle']))
            self.fire(ev)

        def at_stop_point(self):
            p = cur['prog']
            if p['after']:
                fire(self, after(1), 'after', 1)
            do_stop(self, p['how'], p['code'])
            if p.get('twice'):
                # a second stop() of a manager that is already stopping has no effect
                self.stop()

        class App(BaseComponent):
            @handler('started')
            def on_started(self, event, mgr):
                log.append(('h', 'started', None, cur['cycle']))
                p = cur['prog']
                if p['chain']:
                    fire(self, step(1), 'step', 1)
                if p['place'] == 'started':
                    at_stop_point(self)

            @handler('step')
            def on_step(self, event, k):
                log.append(('h', 'step', k, cur['cycle']))
                p = cur['prog']
                if k < p['chain']:
                    fire(self, step(k + 1), 'step', k + 1)
                if k == p['chain']:
                    if p['place'] == 'mid':
                        at_stop_point(self)
                    elif p['place'] == 'gen':
                        def gen():
                            yield None
                            log.append(('h', 'step-gen2', k, cur['cycle']))
                            at_stop_point(self)
                        return gen()
                    elif p['place'] == 'thread':
                        app_self = self
                        ctl.thread_action = lambda: do_stop(app_self, p['how'], p['code'])

            @handler('after')
            def on_after(self, event, i):
                log.append(('h', 'after', i, cur['cycle']))
                if i < cur['prog']['after']:
                    fire(self, after(i + 1), 'after', i + 1)

            @handler('stopped')
            def on_stopped(self, event, mgr):
                log.append(('h', 'stopped', None, cur['cycle']))
                if cur['prog']['tail']:
                    fire(self, tail(1), 'tail', 1)

            @handler('tail')
            def on_tail(self, event, i):
                log.append(('h', 'tail', i, cur['cycle']))
                if i < cur['prog']['tail']:
                    fire(self, tail(i + 1), 'tail', i + 1)

            @handler('exception', channel='*')
            def on_exc(self, etype, evalue, tb, handler=None, fevent=None):
                if etype is not doubles.Abort:
                    log.append(('exception', repr(evalue), None, cur['cycle']))

        app = App()
        ctl.app = app
        app.flush()
        # stop() on a manager that is not running has no effect
        app.stop()
        if len(app._queue) or [x for x in log if x[1] == 'stopped']:
            g.fail('stop-when-not-running-has-effect', {'when': 'before-first-run'}, str(log))
            raise PathEnd()

        for cyc in range(cycles):
            cur['cycle'] = cyc
            place = g.pick('place%d' % cyc, placements)
            hows = HOWS if place != 'thread' else ['stop', 'stop_code']
            if via_start:
                # the loop runs in a thread of its own (start()): an exit code has nobody to be raised to
                hows = [h for h in hows if h in ('stop', 'sysexit_none', 'kbdint')]
            how = g.pick('how%d' % cyc, hows)
            prog = {
                'place': place, 'how': how,
                'chain': g.pick('chain%d' % cyc, list(range(1, chain_max + 1))) if place != 'started' else g.pick('chain%d' % cyc, list(range(0, chain_max + 1))),
                'after': g.pick('after%d' % cyc, after_options),
                'tail': g.pick('tail%d' % cyc, tail_options),
                'code': g.int('code%d' % cyc) if how in ('stop_code', 'sysexit_code') else None,
            }
            if place == 'thread':
                prog['after'] = 0
            if via_start and how == 'stop':
                prog['twice'] = g.flag('twice%d' % cyc)
            cur['prog'] = prog
            outcome = ('returned', None)
            try:
                if via_start:
                    t, _ = app.start()
                    # start() hands back None when the loop has already ended by the time it returns
                    if t is not None:
                        t.join(120)
                    if t is not None and t.is_alive():
                        ctl.hang = True
                    r = None
                else:
                    r = app.run()
                outcome = ('returned', r)
            except SystemExit as e:
                outcome = ('SystemExit', e.code)
            w = {'place': place, 'how': how, 'cycle': cyc}
            mine = [x for x in log if x[3] == cyc]
            detail = 'prog=%s outcome=%s log=%s' % ({k: (v if k != 'code' else g.value_of(v)) for k, v in prog.items()}, (outcome[0], g.value_of(outcome[1]) if outcome[1] is not None else None), [x[:3] for x in mine])
            g.note({'program': {k: str(g.value_of(v)) for k, v in prog.items()}, 'outcome': outcome[0]})
            if ctl.hang:
                g.fail('run-blocked-forever', w, detail)
                raise PathEnd()
            if [x for x in mine if x[0] == 'exception']:
                g.fail('unexpected-exception', w, detail)
                raise PathEnd()
            n_started = len([x for x in mine if x[1] == 'started'])
            n_stopped = len([x for x in mine if x[1] == 'stopped'])
            if n_started != 1:
                g.fail('started-count', w, detail)
            if n_stopped != 1:
                g.fail('stopped-count', w, detail)
            # drained: every event fired in this cycle was dispatched before run() ended, nothing is left queued
            missing = [f for f in fired if f[2] == cyc and ('h', f[0], f[1], cyc) not in mine]
            if missing or len(app._queue):
                w2 = dict(w)
                w2['after_chain'] = prog['after']
                w2['tail_chain'] = prog['tail']
                g.fail('not-drained', w2, 'never dispatched: %s, still queued: %d; %s' % (missing, len(app._queue), detail))
            stale = [x for x in log if x[3] != cyc and x[0] == 'h' and log.index(x) > (max([i for i, y in enumerate(log) if y[3] == cyc and y[1] == 'started'] or [10 ** 9]))]
            if stale:
                g.fail('leftover-from-previous-run', w, str(stale[:3]))
            # exit code
            if prog['code'] is not None:
                if outcome[0] != 'SystemExit':
                    g.fail('exit-code-lost', w, detail)
                else:
                    if outcome[1] is None or not g.check(outcome[1] == prog['code'], 'exit-code-wrong', w, detail):
                        if outcome[1] is None:
                            g.fail('exit-code-lost', w, detail)
            else:
                if outcome[0] == 'SystemExit' and outcome[1] is not None:
                    g.fail('spurious-exit-code', w, detail)
            if app._running:
                g.fail('still-running-after-run', w, detail)
            if g.symbolic is not None and any(v['clause'] for v in getattr(g, 'violations', [])):
                raise PathEnd()
            # stop() after the run: no effect
            n = len(log)
            app.stop()
            if len(app._queue) or len(log) != n:
                g.fail('stop-when-not-running-has-effect', {'when': 'after-run'}, detail)
                raise PathEnd()
    return harness


ENC = [M.Manager.run, M.Manager.stop, M.Manager.tick, M.Manager._dispatcher, HP.FallBackGenerator._on_generate_events]


def canaries():
    from harness.common import mutate
    return [
        ('loop-ignores-queue', 'run-stop', lambda: mutate(M.Manager, 'run', 'while self.running or len(self._queue):', 'while self.running:'), ['not-drained']),
        ('stopped-fired-twice', 'run-stop', lambda: mutate(M.Manager, 'stop', 'self.fire(stopped(self))', 'self.fire(stopped(self)); self.fire(stopped(self))'), ['stopped-count']),
        ('stop-has-effect-when-not-running', 'run-stop', lambda: mutate(M.Manager, 'stop', 'if not self.running:\n        return', 'if not self.running and code is None:\n        pass'), ['stop-when-not-running-has-effect', 'stopped-count']),
        ('generator-sysexit-loses-code', 'run-stop', lambda: mutate(M.Manager, 'processTask', 'except SystemExit as e:\n        self.stop(e.code)', 'except SystemExit as e:\n        self.stop()'), ['exit-code-lost']),
        ('no-wakeup-on-foreign-fire', 'run-stop', lambda: mutate(M.Manager, '_fire', 'handling.reduce_time_left(0)', 'pass'), ['run-blocked-forever']),
    ]


def parts(tier):
    P = ['started', 'mid', 'gen', 'thread']
    if tier == 'quick':
        return [Part('run-stop', make_harness(1, 3, [0, 1, 2, 6], [0, 2, 5], P),
                     bounds={'cycles': 1, 'chain': '<=3', 'after_stop_chain': [0, 1, 2, 6], 'stopped_tail_chain': [0, 2, 5], 'placements': P, 'how': HOWS, 'exit_code': 'z3 Int (unconstrained)'},
                     encoded=ENC + [M.Manager.processTask], budget_s=80),
                Part('started-in-thread', make_harness(1, 2, [0, 2], [0, 2], ['started', 'mid', 'gen', 'thread'], via_start=True),
                     bounds={'cycles': 1, 'launched_with': 'start() (loop in its own thread)', 'chain': '<=2', 'after_stop_chain': [0, 2], 'stopped_tail_chain': [0, 2],
                             'how': ['stop', 'stop twice', 'SystemExit()', 'KeyboardInterrupt']},
                     encoded=ENC + [M.Manager.start], budget_s=80),
                Part('two-cycles', make_harness(2, 1, [0, 6], [0, 2], ['started', 'mid', 'thread']),
                     bounds={'cycles': 2, 'chain': '<=1', 'after_stop_chain': [0, 6], 'stopped_tail_chain': [0, 2], 'placements': ['started', 'mid', 'thread']},
                     encoded=ENC, budget_s=80)]
    return [Part('run-stop', make_harness(1, 3, [0, 1, 2, 4, 6], [0, 1, 2, 5], P), bounds={'cycles': 1, 'chain': '<=3', 'after_stop_chain': [0, 1, 2, 4, 6], 'stopped_tail_chain': [0, 1, 2, 5]},
                 encoded=ENC + [M.Manager.processTask], budget_s=900),
            Part('started-in-thread', make_harness(2, 2, [0, 2, 6], [0, 2], P, via_start=True), bounds={'cycles': 2, 'launched_with': 'start()', 'chain': '<=2'},
                 encoded=ENC + [M.Manager.start, M.Manager.processTask], budget_s=900),
            Part('two-cycles', make_harness(2, 2, [0, 2, 6], [0, 2], P), bounds={'cycles': 2, 'chain': '<=2'}, encoded=ENC + [M.Manager.processTask], budget_s=1800)]


if __name__ == '__main__':
    sys.exit(run_property(sys.modules[__name__]))
