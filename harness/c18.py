"""C18 -- line protocol is segmentation-invariant; IRC messages are exactly one line.

Real code: protocols.line.splitLines/Line._on_read; protocols.irc.message.Message.__init__/_check_args/__str__/
__bytes__/from_string, irc.utils.parsemsg, every constructor in irc.commands.
CrossHair: splitLines on symbolic bytes + a symbolic cut; Message serialisation on symbolic str arguments.
pathex: streams over a token alphabet (CR, LF, CRLF, empty lines, a 2-byte UTF-8 character) with symbolic cuts, the
Line component in server mode with reads of two sockets interleaved, every IRC command constructor on an alphabet of
hostile argument strings.
"""

import os
import sys

sys.path.insert(0, os.path.dirname(os.path.dirname(os.path.abspath(__file__))))

from circuits.core.components import BaseComponent  # noqa: E402
from circuits.core.handlers import handler  # noqa: E402
from circuits.net.events import read  # noqa: E402
from circuits.protocols import line as LN  # noqa: E402
from circuits.protocols.irc import commands as IC  # noqa: E402
from circuits.protocols.irc import message as IM  # noqa: E402
from circuits.protocols.irc import utils as IU  # noqa: E402

from harness.common import Part, run_property  # noqa: E402
from pathex import PathEnd  # noqa: E402

PROPERTY = 'C18'
EXPLANATION = ('C18: (line) byte streams built from a token alphabet are fed to the real Line component cut at symbolic positions, '
               'also as two interleaved sockets in server mode, and compared with a reference split of the whole stream; '
               '(irc) every command constructor is applied to hostile argument strings: the result must be refused (Error) or '
               'serialise to exactly one CRLF-terminated line that parses back; CrossHair explores splitLines and Message '
               'serialisation on symbolic bytes/str contents.')
ASSUMPTIONS = ['lines are terminated by LF or CRLF (a lone CR is data), as the line protocol documents',
               'an IRC line must contain neither CR nor LF before its terminating CRLF (RFC 1459: CR and LF are message separators)',
               'round-trip through parsemsg is demanded only for arguments the IRC grammar can represent (non-empty, no NUL, no leading colon; '
               'spaces only in the last argument)']
OUTSIDE = ['streams longer than the bounds', 'IRC numerics/replies modules', 'encodings other than utf-8']


def ref_lines(stream):
    """reference: split on LF, drop one CR before it; returns (complete lines, unterminated tail)"""
    parts = stream.split(b'\n')
    lines = [p[:-1] if p.endswith(b'\r') else p for p in parts[:-1]]
    return lines, parts[-1]


TOKENS = [b'a', b'b', b'\r', b'\n', b'\r\n', b'\xc3\xa9', b' ']


def make_line_harness(n_tokens, max_cuts):
    def harness(g):
        n = g.pick('n', list(range(1, n_tokens + 1)))
        stream = b''.join(g.pick('tok%d' % i, TOKENS) for i in range(n))
        L = len(stream)
        ncut = g.pick('ncuts', list(range(0, max_cuts + 1))) if L > 1 else 0
        cuts = []
        lo = 1
        for k in range(ncut):
            if lo > L - 1:
                break
            c = int(g.int('cut%d' % k, lo, L - 1))
            cuts.append(c)
            lo = c + 1
        got = []

        class Obs(BaseComponent):
            @handler('line')
            def _on_line(self, data):
                got.append(bytes(data))

            @handler('exception', channel='*')
            def _on_exc(self, etype, evalue, tb, handler=None, fevent=None):
                got.append(('exception', repr(evalue)))
        root = BaseComponent()
        ln = LN.Line().register(root)
        Obs().register(root)
        root.flush()
        prev = 0
        for c in cuts + [L]:
            root.fire(read(stream[prev:c]))
            for _ in range(4):
                if not len(root._queue):
                    break
                root.flush()
            prev = c
        exp, tail = ref_lines(stream)
        g.note({'stream': repr(stream), 'cuts': cuts})
        detail = 'stream=%r cuts=%s: lines %r (expected %r), held %r (expected %r)' % (stream, cuts, got, exp, ln.buffer, tail)
        if got != exp:
            g.fail('lines-differ', {'cr_at_segment_end': any(stream[c - 1:c] == b'\r' for c in cuts)}, detail)
        elif ln.buffer != tail:
            g.fail('held-tail-differs', {}, detail)
    return harness


def make_server_harness(n_tokens):
    def harness(g):
        socks = ['s0', 's1']
        streams = {}
        for s in socks:
            n = g.pick('n_%s' % s, [1, 2, n_tokens])
            streams[s] = b''.join(g.pick('tok_%s_%d' % (s, i), [b'a', b'\r', b'\n', b'\r\n', b'\xc3\xa9']) for i in range(n))
        buffers = {}
        got = {s: [] for s in socks}

        class Obs(BaseComponent):
            @handler('line')
            def _on_line(self, sock, data):
                got[sock].append(bytes(data))
        root = BaseComponent()
        LN.Line(getBuffer=lambda s: buffers.get(s, b''), updateBuffer=lambda s, b: buffers.__setitem__(s, b)).register(root)
        Obs().register(root)
        root.flush()
        pos = {s: 0 for s in socks}
        order = []
        # byte-at-a-time delivery, interleaved by choice
        while any(pos[s] < len(streams[s]) for s in socks):
            avail = [s for s in socks if pos[s] < len(streams[s])]
            s = g.pick('turn%d' % len(order), avail) if len(avail) > 1 else avail[0]
            order.append(s)
            root.fire(read(s, streams[s][pos[s]:pos[s] + 1]))
            pos[s] += 1
            for _ in range(4):
                if not len(root._queue):
                    break
                root.flush()
        g.note({'streams': {s: repr(v) for s, v in streams.items()}, 'order': ''.join(x[1] for x in order)})
        for s in socks:
            exp, tail = ref_lines(streams[s])
            if got[s] != exp or buffers.get(s, b'') != tail:
                g.fail('server-mode-lines-differ', {}, 'sock %s stream %r order %s: lines %r (expected %r) held %r (expected %r)' % (
                    s, streams[s], order, got[s], exp, buffers.get(s, b''), tail))
    return harness


ARGS = ['a', 'a b', ':a', 'a:b', 'a\rb', 'a\nb', 'a\r\nb', 'a\x00b', '', ' ', 'x y z', '\r', 'b', 'see you\r\nQUIT :x', 'a b\rc']
CONSTRUCTORS = [('AWAY', 1), ('NICK', 2), ('USER', 4), ('PASS', 1), ('PONG', 2), ('QUIT', 1), ('JOIN', 2), ('PART', 2), ('PRIVMSG', 2),
                ('NOTICE', 2), ('KICK', 3), ('TOPIC', 2), ('MODE', 3), ('INVITE', 2), ('NAMES', 1), ('WHOIS', 2), ('WHO', 2)]


def representable(args):
    if any((a == '' or '\x00' in a or '\r' in a or '\n' in a or a.startswith(':') or a != a.strip(' ')) for a in args):
        return False
    return not any(' ' in a for a in args[:-1])


def check_message(g, msg, where, w):
    try:
        b = bytes(msg)
    except IM.Error:
        return 'refused'
    except Exception as e:  # noqa
        g.fail('serialisation-raises', w, '%s: %r' % (where, e))
        return 'bad'
    if not b.endswith(b'\r\n'):
        g.fail('not-crlf-terminated', w, '%s -> %r' % (where, b))
        return 'bad'
    body = b[:-2]
    if b'\r' in body or b'\n' in body:
        w2 = dict(w)
        w2['char'] = 'CR' if (b'\r' in body and b'\n' not in body) else ('LF' if b'\r' not in body else 'CRLF')
        g.fail('line-injection', w2, '%s -> %r' % (where, b))
        return 'bad'
    return body


def make_irc_harness(max_arity):
    def harness(g):
        name, arity = g.pick('ctor', [c for c in CONSTRUCTORS if c[1] <= max_arity])
        k = g.pick('nargs', list(range(1, arity + 1)))
        args = [g.pick('arg%d' % i, ARGS) for i in range(k)]
        where = '%s(%s)' % (name, ', '.join(repr(a) for a in args))
        g.note({'call': where})
        w = {'constructor': name, 'position': 'last' if any(c in args[-1] for c in '\r\n') else 'other'}
        try:
            ev = getattr(IC, name)(*args)
        except IM.Error:
            return
        except TypeError:
            raise PathEnd('arity')
        except Exception as e:  # noqa
            g.fail('constructor-raises', w, '%s: %r' % (where, e))
            return
        msg = ev.args[0]
        body = check_message(g, msg, where, w)
        if body in ('refused', 'bad'):
            return
        if representable([a for a in args]):
            prefix, command, pargs = IU.parsemsg(body)
            if command != str(msg.command) or pargs != msg.args:
                g.fail('round-trip-differs', w, '%s -> %r -> command %r args %r (message has %r %r)' % (where, body, command, pargs, msg.command, msg.args))
    return harness


def make_message_harness():
    """Message(command, *args, prefix=...) with hostile command / prefix values"""
    def harness(g):
        cmd = g.pick('cmd', ['PRIVMSG', 'A\rB', 'A\nB', 'A B', ''])
        prefix = g.pick('prefix', [None, 'nick!user@host', 'n\rx', 'n\nx', 'n x'])
        args = [g.pick('arg%d' % i, ['a', 'a b', 'a\rb', 'a\nb']) for i in range(g.pick('nargs', [0, 1, 2]))]
        where = 'Message(%r, %s, prefix=%r)' % (cmd, ', '.join(repr(a) for a in args), prefix)
        g.note({'call': where})
        w = {'where': 'command' if any(c in cmd for c in '\r\n') else ('prefix' if prefix and any(c in prefix for c in '\r\n') else 'args')}
        try:
            msg = IM.Message(cmd, *args, **({'prefix': prefix} if prefix is not None else {}))
        except IM.Error:
            return
        except Exception as e:  # noqa
            g.fail('constructor-raises', w, '%s: %r' % (where, e))
            return
        check_message(g, msg, where, w)
    return harness


XH_PREAMBLE = '''
from circuits.protocols.line import splitLines
from circuits.protocols.irc.message import Message, Error
from harness.c18 import ref_lines
'''

XH_CONDITIONS = [
    {'name': 'split_two_segments', 'clause': 'lines-differ', 'timeout': 45, 'timeout_thorough': 400, 'src': '''
def split_two_segments(data: bytes, cut: int) -> bool:
    """
    pre: len(data) <= 3
    pre: 0 <= cut <= len(data)
    post: _
    """
    l1, b1 = splitLines(data[:cut], b'')
    l2, b2 = splitLines(data[cut:], b1)
    la, ba = splitLines(data, b'')
    return l1 + l2 == la and b2 == ba
'''},
    {'name': 'split_matches_reference', 'clause': 'lines-differ', 'timeout': 45, 'timeout_thorough': 400, 'src': '''
def split_matches_reference(data: bytes) -> bool:
    """
    pre: len(data) <= 3
    post: _
    """
    la, ba = splitLines(data, b'')
    le, be = ref_lines(data)
    return la == le and ba == be
'''},
    {'name': 'message_one_line', 'clause': 'line-injection', 'timeout': 60, 'src': '''
def message_one_line(a: str, b: str) -> bool:
    """
    pre: len(a) <= 2 and len(b) <= 3
    post: _
    """
    try:
        s = str(Message('PRIVMSG', a, b))
    except Error:
        return True
    return s.endswith(chr(13) + chr(10)) and chr(13) not in s[:-2] and chr(10) not in s[:-2]
'''},
]

ENC_L = [LN.splitLines, LN.Line._on_read]
ENC_I = [IM.Message.__init__, IM.Message._check_args, IM.Message.__str__]


def canaries():
    from harness.common import mutate
    return [
        ('split-requires-crlf', 'line-stream', lambda: mutate(LN, 'splitLines', 'LINESEP.split(buffer + s)', "__import__('re').compile(b'\\r\\n').split(buffer + s)"), None),
        ('buffer-not-kept', 'line-stream', lambda: mutate(LN.Line, '_on_read', 'lines, self.buffer = self.splitter(data, self.buffer)', "lines, self.buffer = self.splitter(data, b'')"), None),
        ('server-buffer-shared', 'line-server', lambda: mutate(LN.Line, '_on_read', 'lines, buffer = self.splitter(data, self.getBuffer(sock))\n        self.updateBuffer(sock, buffer)', 'lines, buffer = self.splitter(data, self.buffer)\n        self.buffer = buffer\n        self.updateBuffer(sock, buffer)'), None),
        ('newline-check-only-last-arg', 'irc-constructors', lambda: mutate(IM.Message, '_check_args', "for arg in self.args if isinstance(arg, str) for nl in", "for arg in self.args[-1:] if isinstance(arg, str) for nl in"), None),
        ('cr-allowed-again', 'irc-constructors', lambda: mutate(IM.Message, '_check_args', "for nl in ('\\r', '\\n')):", "for nl in ('\\n',)):"), None),
    ]


def parts(tier):
    xh = Part('kernels-symbolic', kind='crosshair', conditions=XH_CONDITIONS,
              bounds={'splitLines': 'data: bytes, len <= 3, cut symbolic', 'Message': "str(Message('PRIVMSG', a, b)), len(a) <= 2, len(b) <= 3 (symbolic str)"})
    xh.xh_preamble = XH_PREAMBLE
    q = tier == 'quick'
    return [
        Part('line-stream', make_line_harness(4 if q else 5, 2), bounds={'tokens': [repr(t) for t in TOKENS], 'max_tokens': 4 if q else 5, 'cuts': '0..2 z3 Ints'},
             encoded=ENC_L, budget_s=85 if q else 1500),
        Part('line-server', make_server_harness(2), bounds={'sockets': 2, 'tokens_per_socket': 2, 'delivery': 'byte at a time, every interleaving'},
             encoded=ENC_L, budget_s=85 if q else 1500),
        Part('irc-constructors', make_irc_harness(3 if q else 4), bounds={'constructors': [c[0] for c in CONSTRUCTORS], 'argument_alphabet': [repr(a) for a in ARGS], 'max_arity': 3 if q else 4},
             encoded=ENC_I, budget_s=85 if q else 1500),
        Part('irc-message', make_message_harness(), bounds={'command/prefix/args': 'hostile values incl. CR, LF, space, empty'}, encoded=ENC_I, budget_s=60),
        xh,
    ]


if __name__ == '__main__':
    sys.exit(run_property(sys.modules[__name__]))
