"""C12 -- every connection: one connect, ordered reads, one disconnect, then no trace.

Real code: Server._on_read/_accept/_on_accept_done/_read/_close/close/write/_on_write/_write/_on_disconnect and the
real Select/Poll/EPoll components (on the stub kernel).  Choices: the history of peer actions (connect, send, half-close,
abort, stop/resume reading) interleaved with server-side write/close (also late, after the disconnect) and loop
iterations; the poller class.
"""

import os
import sys

sys.path.insert(0, os.path.dirname(os.path.dirname(os.path.abspath(__file__))))

from circuits.core import pollers as PL  # noqa: E402
from circuits.core.components import BaseComponent  # noqa: E402
from circuits.core.handlers import handler  # noqa: E402
from circuits.net import sockets as SK  # noqa: E402
from circuits.net.events import close, write  # noqa: E402

from harness import doubles  # noqa: E402
from harness.common import Part, run_property  # noqa: E402
from harness.netdoubles import ConnSock, ListenSock, retained  # noqa: E402
from harness.stubkernel import StubKernel  # noqa: E402
from pathex import PathEnd  # noqa: E402

PROPERTY = 'C12'
EXPLANATION = ('C12: a real TCPServer runs on a real poller component over a stub kernel with scripted sockets; the history of '
               'peer actions and server-side writes/closes (incl. late ones) is a vector of choices; per socket the observed '
               'event sequence must be connect, read*, disconnect with the reads concatenating to what the peer sent, and at '
               'quiescence neither server nor poller nor kernel table may hold the socket.')
ASSUMPTIONS = [
    'stub kernel + scripted sockets: readiness follows from the peer script (data pending / FIN => readable; RST => '
    'readable|HUP|ERR, recv delivers pending data then ECONNRESET; peer not reading => not writable, send raises EAGAIN)',
    'manager marked running and stepped with tick(0): one poll per iteration, no blocking',
    'if the server itself closes a connection, data the peer sent but the server had not read may be dropped (prefix only)',
]
OUTSIDE = ['TLS, UDP, UNIX sockets', 'more than the stated number of connections / history length', 'client components (C11 covers their write path)']


def make_harness(poller_name, n_ops, max_conns=2):
    def harness(g):
        kernel = StubKernel(first_free=1000)
        saved = PL.select
        PL.select = kernel
        poller = None
        try:
            poller = getattr(PL, poller_name)()
            body(g, kernel, poller)
        finally:
            PL.select = saved
            if poller is not None:
                for fdn in (poller._ctrl_recv, poller._ctrl_send):
                    try:
                        os.close(fdn)
                    except Exception:
                        pass

    def body(g, kernel, poller):
        log = []       # (kind, sock, extra)

        class Obs(BaseComponent):
            channel = '*'

            @handler('connect', channel='*')
            def on_connect(self, sock, *a):
                log.append(('connect', sock, None))

            @handler('read', channel='*')
            def on_read(self, sock, data):
                log.append(('read', sock, bytes(data)))

            @handler('disconnect', channel='*')
            def on_disconnect(self, sock=None, *a):
                log.append(('disconnect', sock, None))

            @handler('error', channel='*')
            def on_error(self, *args):
                log.append(('error', args[0] if args else None, repr(args[-1]) if args else None))

            @handler('exception', channel='*')
            def on_exc(self, etype, evalue, tb, handler=None, fevent=None):
                log.append(('exception', None, '%s in %s' % (repr(evalue), getattr(fevent, 'name', None))))

        root = BaseComponent()
        Obs().register(root)
        poller.register(root)
        lsock = ListenSock(kernel)
        server = SK.TCPServer(lsock).register(root)
        doubles.mark_running(root)
        for _ in range(3):
            root.tick(0)
        del log[:]
        conns = []
        history = []
        wrote = {}      # sock -> bytes the application asked to write while connected
        server_closed = set()
        chunk_no = [0]

        def iterate():
            root.tick(0)
            for _ in range(3):
                if not len(root._queue):
                    break
                root.tick(0)

        def seq(sock):
            return [x for x in log if x[1] is sock]

        def disconnected(sock):
            return any(x[0] == 'disconnect' for x in seq(sock))

        def connected(sock):
            return any(x[0] == 'connect' for x in seq(sock))

        for step in range(n_ops):
            ops = []
            if len(conns) < max_conns:
                ops.append(('connect',))
            for i, c in enumerate(conns):
                if not c.peer_fin and not c.peer_rst:
                    ops.append(('send', i))
                    ops.append(('fin', i))
                    ops.append(('rst', i))
                    ops.append(('block', i) if not c.blocked else ('unblock', i))
                if connected(c):
                    ops.append(('write', i))      # also after the disconnect (late write)
                    ops.append(('close', i))      # also late
            ops.append(('iterate',))
            ops.append(('stop',))
            op = g.pick('op%d' % step, ops)
            history.append(op)
            if op[0] == 'stop':
                break
            if op[0] == 'connect':
                c = ConnSock(kernel, 'conn%d' % len(conns))
                conns.append(c)
                lsock.pending.append(c)
            elif op[0] == 'iterate':
                iterate()
            else:
                c = conns[op[1]]
                if op[0] == 'send':
                    chunk_no[0] += 1
                    c.peer_send(b'p%d' % chunk_no[0])
                elif op[0] == 'fin':
                    c.peer_close()
                elif op[0] == 'rst':
                    c.peer_abort()
                elif op[0] == 'block':
                    c.blocked = True
                elif op[0] == 'unblock':
                    c.blocked = False
                elif op[0] == 'write':
                    chunk_no[0] += 1
                    data = b'w%d' % chunk_no[0]
                    if not disconnected(c):
                        wrote.setdefault(c, bytearray()).extend(data)
                    root.fire(write(c, data), server.channel)
                elif op[0] == 'close':
                    if not disconnected(c):
                        server_closed.add(c)
                    root.fire(close(c), server.channel)
        # quiescence: peers read again, everything pending is processed
        for c in conns:
            c.blocked = False
        for _ in range(8):
            iterate()
        # every connection is ended by the peer now, then drained
        for c in conns:
            if not c.peer_fin and not c.peer_rst:
                c.peer_close()
        for _ in range(8):
            iterate()
        doubles.unmark_running(root)
        g.note({'poller': poller_name, 'history': [list(map(str, h)) for h in history],
                'events': [(x[0], getattr(x[1], 'label', None)) for x in log][:20]})
        detail_tail = 'poller=%s history=%s log=%s' % (poller_name, history, [(x[0], getattr(x[1], 'label', None), x[2]) for x in log])
        late = any(h[0] in ('write', 'close') for h in history)
        exc = [x for x in log if x[0] == 'exception']
        for c in conns:
            s = seq(c)
            kinds = [x[0] for x in s]
            late_ops = _late_ops(history, conns.index(c), log, c)
            w = {'poller': poller_name, 'side': 'server', 'late_write_or_close': late_ops, 'server_closed': c in server_closed,
                 'peer': 'rst' if c.peer_rst else 'fin',
                 'closed_by_failed_write': any(x[0] == 'error' and 'BrokenPipe' in str(x[2]) for x in s)}
            if c.rst_before_accept:
                # the peer reset the connection before the server accepted it: the handshake fails (getpeername: ENOTCONN),
                # no connect is announced; the server must still close the socket and forget it
                w['reset_before_accept'] = True
                if 'connect' in kinds or 'read' in kinds:
                    g.fail('connect-count', w, detail_tail)
                elif kinds.count('disconnect') > 1:
                    g.fail('disconnect-count', w, detail_tail)
                elif 'disconnect' in kinds and s[kinds.index('disconnect') + 1:]:
                    g.fail('event-after-disconnect', w, detail_tail)
                elif not c.closed:
                    g.fail('socket-never-closed', w, detail_tail)
                else:
                    held = retained(server, c) + ['poller' + p for p in retained(poller, c)]
                    if held:
                        g.fail('state-retained-after-disconnect', w, '%s retained in %s; %s' % (c.label, sorted(set(held)), detail_tail))
                continue
            if kinds.count('connect') != 1:
                if kinds.count('connect') == 0 and not kinds:
                    # never accepted: only legitimate if the listener never got to it -- after draining it must have been
                    g.fail('connection-never-accepted', w, detail_tail)
                else:
                    g.fail('connect-count', w, detail_tail)
                continue
            if kinds[0] != 'connect':
                g.fail('event-before-connect', w, detail_tail)
                continue
            if kinds.count('disconnect') != 1:
                g.fail('disconnect-count', w, '%d disconnects for %s; %s' % (kinds.count('disconnect'), c.label, detail_tail))
                continue
            di = kinds.index('disconnect')
            after = s[di + 1:]
            if after:
                g.fail('event-after-disconnect', w, '%s after disconnect of %s; %s' % ([(x[0], x[2]) for x in after], c.label, detail_tail))
                continue
            got = b''.join(x[2] for x in s if x[0] == 'read')
            sent = bytes(c.sent_total)
            if c in server_closed:
                if not sent.startswith(got):
                    g.fail('read-data-corrupted', w, 'got %r sent %r; %s' % (got, sent, detail_tail))
            elif got != sent:
                g.fail('read-data-lost-or-duplicated', w, 'got %r sent %r; %s' % (got, sent, detail_tail))
            if c.recv_after_close or c.send_after_close:
                g.fail('io-on-closed-socket', w, 'recv_after_close=%d send_after_close=%d; %s' % (c.recv_after_close, c.send_after_close, detail_tail))
            if not c.closed:
                g.fail('socket-never-closed', w, detail_tail)
            # what the application wrote while connected arrives in order (prefix if the connection broke)
            if not bytes(wrote.get(c, b'')).startswith(bytes(c.outbox)) and not bytes(c.outbox).startswith(bytes(wrote.get(c, b''))):
                g.fail('written-data-corrupted', w, 'outbox %r wrote %r; %s' % (bytes(c.outbox), bytes(wrote.get(c, b'')), detail_tail))
            # no trace
            held = retained(server, c) + ['poller' + p for p in retained(poller, c)]
            if kernel.open.get(c.no) is c:
                held.append('kernel.open')
            for pl in (getattr(poller, '_poller', None),):
                tab = getattr(pl, 'table', None)
                if tab:
                    for n, v in tab.items():
                        if (isinstance(v, tuple) and v[0] is c):
                            held.append('kernel.epoll-table')
            if held:
                g.fail('state-retained-after-disconnect', w, '%s retained in %s; %s' % (c.label, sorted(set(held)), detail_tail))
        if exc:
            w = {'poller': poller_name, 'late_write_or_close': any(_late_ops(history, i, log, c) for i, c in enumerate(conns))}
            g.fail('unexpected-exception', w, '%s; %s' % ([x[2] for x in exc][:3], detail_tail))
    return harness


def _late_ops(history, idx, log, c):
    """was a write/close addressed to connection idx after its disconnect had been observed?  (computed from the order of
    the observer log and the history is not recorded per step, so approximate: a write/close op exists for idx and the
    connection was already ended by the peer or closed by the server earlier in the history)"""
    ended = False
    for h in history:
        if len(h) > 1 and h[1] == idx:
            if h[0] in ('fin', 'rst', 'close'):
                if ended and h[0] == 'close':
                    return True
                ended = True
            elif h[0] == 'write' and ended:
                return True
    return False


def make_client_harness(poller_name, n_ops):
    """a TCPClient on a scripted socket: one `connected`, ordered reads, exactly one `disconnected`, no trace"""
    from circuits.net.events import connect as connect_ev

    def harness(g):
        kernel = StubKernel(first_free=1000)
        saved = PL.select
        PL.select = kernel
        poller = None
        try:
            poller = getattr(PL, poller_name)()
            body(g, kernel, poller)
        finally:
            PL.select = saved
            if poller is not None:
                for fdn in (poller._ctrl_recv, poller._ctrl_send):
                    try:
                        os.close(fdn)
                    except Exception:
                        pass

    def body(g, kernel, poller):
        log = []

        class Obs(BaseComponent):
            channel = '*'

            @handler('connected', channel='*')
            def on_connected(self, *a):
                log.append(('connected', None))

            @handler('read', channel='*')
            def on_read(self, data):
                log.append(('read', bytes(data)))

            @handler('disconnected', channel='*')
            def on_disconnected(self, *a):
                log.append(('disconnected', None))

            @handler('error', channel='*')
            def on_error(self, *a):
                log.append(('error', repr(a[-1]) if a else None))

            @handler('exception', channel='*')
            def on_exc(self, etype, evalue, tb, handler=None, fevent=None):
                log.append(('exception', '%r in %s' % (evalue, getattr(fevent, 'name', None))))

        root = BaseComponent()
        Obs().register(root)
        poller.register(root)
        client = SK.TCPClient(channel='client').register(root)
        try:
            client._sock.close()
        except Exception:
            pass
        sock = ConnSock(kernel, 'csock')
        sock.connect = lambda addr: None
        sock.connect_ex = lambda addr: 0
        client._sock = sock
        doubles.mark_running(root)
        for _ in range(3):
            root.tick(0)
        del log[:]

        def iterate():
            for _ in range(4):
                root.tick(0)
                if not len(root._queue) and not root._tasks:
                    break

        root.fire(connect_ev('10.0.0.9', 4000), 'client')
        iterate()
        history = []
        wrote = bytearray()
        n = [0]
        for step in range(n_ops):
            ops = []
            if not sock.peer_fin and not sock.peer_rst:
                ops += [('send',), ('fin',), ('rst',), ('block',) if not sock.blocked else ('unblock',)]
            ops += [('write',), ('close',), ('iterate',), ('stop',)]
            op = g.pick('op%d' % step, ops)
            history.append(op)
            if op[0] == 'stop':
                break
            n[0] += 1
            if op[0] == 'send':
                sock.peer_send(b'p%d' % n[0])
            elif op[0] == 'fin':
                sock.peer_close()
            elif op[0] == 'rst':
                sock.peer_abort()
            elif op[0] == 'block':
                sock.blocked = True
            elif op[0] == 'unblock':
                sock.blocked = False
            elif op[0] == 'write':
                if not any(x[0] == 'disconnected' for x in log):
                    wrote.extend(b'w%d' % n[0])
                root.fire(write(b'w%d' % n[0]), 'client')
            elif op[0] == 'close':
                root.fire(close(), 'client')
            elif op[0] == 'iterate':
                iterate()
        sock.blocked = False
        for _ in range(6):
            iterate()
        if not sock.peer_fin and not sock.peer_rst:
            sock.peer_close()
        for _ in range(6):
            iterate()
        doubles.unmark_running(root)
        kinds = [x[0] for x in log]
        closed_locally = ('close',) in history
        w = {'poller': poller_name, 'side': 'client', 'peer': 'rst' if sock.peer_rst else 'fin', 'closed_locally': closed_locally,
             'closed_by_failed_write': bool(getattr(sock, 'send_failed_epipe', False))}
        detail = 'poller=%s history=%s log=%s' % (poller_name, history, log)
        g.note({'poller': poller_name, 'side': 'client', 'history': [list(map(str, h)) for h in history]})
        if [x for x in log if x[0] == 'exception']:
            g.fail('unexpected-exception', w, detail)
            raise PathEnd()
        if kinds.count('connected') != 1:
            g.fail('connect-count', w, detail)
            raise PathEnd()
        if kinds.count('disconnected') != 1:
            g.fail('disconnect-count', w, '%d disconnected events; %s' % (kinds.count('disconnected'), detail))
            raise PathEnd()
        di = kinds.index('disconnected')
        if [x for x in log[di + 1:] if x[0] in ('read', 'connected', 'disconnected', 'error')]:
            g.fail('event-after-disconnect', w, detail)
        got = b''.join(x[1] for x in log if x[0] == 'read')
        sent = bytes(sock.sent_total)
        if closed_locally:
            if not sent.startswith(got):
                g.fail('read-data-corrupted', w, 'got %r sent %r; %s' % (got, sent, detail))
        elif got != sent:
            g.fail('read-data-lost-or-duplicated', w, 'got %r sent %r; %s' % (got, sent, detail))
        if sock.recv_after_close or sock.send_after_close:
            g.fail('io-on-closed-socket', w, detail)
        if not sock.closed:
            g.fail('socket-never-closed', w, detail)
        held = ['poller' + p for p in retained(poller, sock)]
        if kernel.open.get(sock.no) is sock:
            held.append('kernel.open')
        if held:
            g.fail('state-retained-after-disconnect', w, '%s; %s' % (sorted(set(held)), detail))
    return harness


ENC = [SK.Server._on_read, SK.Server._accept, SK.Server._on_accept_done, SK.Server._read, SK.Server._close, SK.Server.close]


def canaries():
    from harness.common import mutate
    return [
        ('read-guard-dropped', 'Select', lambda: mutate(SK.Server, '_read', 'if sock not in self._clients:\n        return', 'pass'), None),
        ('epoll-hup-drops-pending-data', 'EPoll', lambda: mutate(PL.EPoll, '_process', 'if event & self._disconnected_flag and not (event & select.POLLIN):', 'if event & self._disconnected_flag:'), ['read-data-lost-or-duplicated']),
        ('close-does-not-discard', 'Poll', lambda: mutate(SK.Server, '_close', 'self._poller.discard(sock)', 'pass'), None),
        ('buffers-not-dropped', 'Select', lambda: mutate(SK.Server, '_close', 'if sock in self._buffers:\n        del self._buffers[sock]', 'pass'), ['state-retained-after-disconnect']),
        ('double-disconnect', 'Select', lambda: mutate(SK.Server, '_close', 'if sock != self._sock and sock not in self._clients:\n        return', 'pass'), None),
    ]


def parts(tier):
    n = 7 if tier == 'quick' else 9
    out = []
    for name in ('Select', 'Poll', 'EPoll'):
        out.append(Part(name, make_harness(name, n, max_conns=1),
                        bounds={'poller': name, 'history_length': n, 'connections': 1,
                                'ops': 'connect/send/fin/rst/block/unblock/write/close (also late)/iterate'},
                        encoded=ENC, budget_s=85 if tier == 'quick' else 1500))
    for name in ('Select', 'Poll', 'EPoll'):
        out.append(Part('client-' + name, make_client_harness(name, 5 if tier == 'quick' else 7),
                        bounds={'poller': name, 'side': 'TCPClient', 'history_length': 5 if tier == 'quick' else 7, 'ops': 'send/fin/rst/block/unblock/write/close/iterate'},
                        encoded=[SK.Client._read, SK.Client._close, SK.Client.close, SK.Client.write], budget_s=85 if tier == 'quick' else 1200))
    n2 = 5 if tier == 'quick' else 7
    for name in ('Select', 'Poll', 'EPoll'):
        out.append(Part('two-connections-' + name, make_harness(name, n2, max_conns=2), bounds={'poller': name, 'history_length': n2, 'connections': 2}, encoded=ENC,
                        budget_s=85 if tier == 'quick' else 900))
    return out


if __name__ == '__main__':
    sys.exit(run_property(sys.modules[__name__]))
