"""C02 -- dispatch order: priority then FIFO per pass; handler priority; stop().

Symbolic data: every event priority and every handler priority is a z3 Real (covers negative and
fractional values, and equalities as solver cases).  Choices: what each handler invocation does
(fire children with fresh symbolic priorities / default priority, stop(), recursive flush()).
Real code: Manager.fire/_fire/flush/_flush/_dispatcher, _EventQueue.append/dispatchEvents, Event.stop.
"""

import os
import sys

sys.path.insert(0, os.path.dirname(os.path.dirname(os.path.abspath(__file__))))

from circuits.core import manager as M  # noqa: E402
from circuits.core.components import BaseComponent  # noqa: E402
from circuits.core.events import Event  # noqa: E402
from circuits.core.handlers import handler  # noqa: E402

from harness.common import Part, run_property  # noqa: E402

PROPERTY = 'C02'
EXPLANATION = ('C02: events with symbolic real priorities are fired from outside and from handlers; the real queue/heap/'
               'dispatcher decide the order; the ghost log is checked by solver-discharged ordering formulas.')
ASSUMPTIONS = [
    'single thread; loop stepped with fire()/flush() only',
    'all test events share one name and channel, so every declared handler matches every event (matching itself is C01)',
]
OUTSIDE = [
    'more than the stated number of events/handlers/nesting depth',
    'order between handlers of equal priority (left open by the statement)',
    'recursive flush() from handlers is only checked for no-loss/no-duplication/no re-entrancy from fire()',
]


class ev(Event):
    pass


class MyErr(Exception):
    pass


def make_harness(n_ext, max_events, n_handlers, max_depth, flushes, allow_stop, allow_reflush=False, sym_handler_prio=True, allow_raise=False, two_channels=False, allow_forward=False):
    def harness(g):
        log = []          # (event_name, handler_idx, flush_idx)
        events = {}       # name -> dict(prio, seq, depth, fired_flush, obj)
        order = []        # event names in fire order
        state = {'depth': 0, 'flush': -1, 'maxdepth': 0, 'stoppedby': {}, 'reflush': 0}
        hprio = []
        for j in range(n_handlers):
            if sym_handler_prio:
                hprio.append(g.real('q%d' % j))
            else:
                hprio.append(0)

        # with two_channels every event goes to the channels ('a', 'b') and each handler listens on one of them
        CH = ('a', 'b') if two_channels else ()
        hchan = [g.pick('hchan%d' % j, ['a', 'b']) if two_channels else None for j in range(n_handlers)]

        def fire_event(comp, name, depth):
            if g.flag('dflt_%s' % name):
                prio = 0
                e = ev(name)
                events[name] = {'prio': prio, 'seq': len(order), 'depth': depth, 'fired_flush': state['flush'], 'obj': e}
                order.append(name)
                comp.fire(e, *CH)
            else:
                prio = g.real('p_%s' % name)
                e = ev(name)
                events[name] = {'prio': prio, 'seq': len(order), 'depth': depth, 'fired_flush': state['flush'], 'obj': e}
                order.append(name)
                comp.fire(e, *CH, priority=prio)
            state['before_return_depth'] = state['depth']

        def body(self, j, event, name):
            state['depth'] += 1
            state['maxdepth'] = max(state['maxdepth'], state['depth'])
            log.append((name, j, state['flush']))
            rec = events[name]
            acts = ['none']
            # the action set depends on (depth, handler) only, never on run-dependent counters, so that a
            # choice keeps its arity when equal-priority handlers run in another (address-dependent) order
            if rec['depth'] < max_depth:
                acts.append('fire1')
                acts.append('fire2')
            if allow_stop:
                acts.append('stop')
            if allow_raise:
                acts.append('raise')
                if allow_stop:
                    acts.append('stop_raise')
            if allow_forward and allow_stop:
                acts.append('stop_forward')
            if allow_reflush and state['reflush'] < 1 and rec['depth'] == 0:
                acts.append('fire_reflush')
            a = g.pick('act_%s_h%d' % (name, j), acts) if len(acts) > 1 else 'none'
            if a in ('fire1', 'fire2', 'fire_reflush') and len(order) >= max_events:
                a = 'none'      # event budget exhausted: degrade (keeps the space finite)
            if a in ('fire1', 'fire2', 'fire_reflush'):
                fire_event(self, '%s.%d.0' % (name, j), rec['depth'] + 1)
                if a == 'fire2' and len(order) < max_events:
                    fire_event(self, '%s.%d.1' % (name, j), rec['depth'] + 1)
                if a == 'fire_reflush':
                    state['reflush'] += 1
                    d = state['depth']
                    state['depth'] = 0      # a recursive flush is a deliberate nested dispatch
                    self.flush()
                    state['depth'] = d
            elif a in ('stop', 'stop_raise', 'stop_forward'):
                event.stop()
                state['stoppedby'][name] = j
                if a == 'stop_forward':
                    # the stopping handler hands the very same event object on to another channel (nobody listens there)
                    self.fire(event, 'elsewhere')
            state['depth'] -= 1
            if a in ('raise', 'stop_raise'):
                raise MyErr(name)

        ns = {}
        for j in range(n_handlers):
            def mk(j):
                def h(self, event, name):
                    body(self, j, event, name)
                h.__name__ = 'h%d' % j
                if two_channels:
                    return handler('ev', priority=hprio[j], channel=hchan[j])(h)
                return handler('ev', priority=hprio[j])(h)
            ns['h%d' % j] = mk(j)
        def on_exc(self, etype, evalue, tb, handler=None, fevent=None):
            if etype is not MyErr:
                state.setdefault('exc', []).append('%s: %s' % (getattr(etype, '__name__', etype), evalue))
        on_exc.__name__ = 'on_exc'
        ns['on_exc'] = handler('exception', channel='*')(on_exc)
        Comp = type('Comp', (BaseComponent,), ns)
        comp = Comp(channel='main') if allow_forward else Comp()

        fired_ext = 0
        dispatched = set()
        for k in range(flushes):
            # external fires before flush k
            n_now = n_ext if k == 0 else (1 if (fired_ext < n_ext + 1 and len(order) < max_events and g.flag('ext_again_%d' % k)) else 0)
            for i in range(n_now):
                if len(order) >= max_events:
                    break
                fire_event(comp, 'x%d_%d' % (k, i), 0)
                fired_ext += 1
            # (3) fire() never dispatches: nothing may have been logged by the fires themselves
            queued = [n for n in order if n not in dispatched]
            before = len(log)
            state['flush'] = k
            comp.flush()
            state['flush'] = -1 if False else k
            batch_log = log[before:]
            if state.get('exc'):
                g.fail('unexpected-exception', {'flush': k}, str(state['exc'][:2]))
                raise_end()
            # events dispatched in this pass, in order of first appearance
            seq = []
            for (n, j, fl) in batch_log:
                if n not in seq:
                    seq.append(n)
            reflushed = state['reflush'] > 0
            w = {'flush': k, 'reflush': reflushed}
            # (1) exactly the events queued when the pass began (a recursive flush may legitimately pull in more)
            if not reflushed:
                if set(seq) != set(queued):
                    g.fail('pass-batch', w, 'queued at start %s, dispatched %s' % (queued, seq))
                    raise_end()
            else:
                if not set(queued) <= set(seq):
                    g.fail('lost-event', w, 'queued %s dispatched %s' % (queued, seq))
                    raise_end()
            # an event fired by a handler during this pass never overtakes one that was queued when the pass began
            # (also when the handler re-enters the dispatcher with flush())
            first = {}
            for i, (n, j, fl) in enumerate(batch_log):
                first.setdefault(n, i)
            for m in seq:
                if m in queued:
                    continue
                late = [n for n in queued if n in first and first[n] > first[m]]
                if late:
                    g.fail('fired-in-pass-overtakes-queued', w, 'event %s fired during the pass ran before %s; log %s' % (m, late, batch_log[:12]))
                    raise_end()
            # contiguous handler blocks per event, each event once
            blocks = []
            for (n, j, fl) in batch_log:
                if blocks and blocks[-1][0] == n:
                    blocks[-1][1].append(j)
                else:
                    blocks.append((n, [j]))
            names = [b[0] for b in blocks]
            if not reflushed and len(set(names)) != len(names):
                g.fail('event-dispatched-twice-or-interleaved', w, str(blocks))
                raise_end()
            for n in names:
                if n in dispatched and not reflushed:
                    g.fail('event-dispatched-twice', w, n)
                    raise_end()
            dispatched.update(names)
            # (2) order inside the pass
            if not reflushed:
                for a, b in zip(seq, seq[1:]):
                    pa, pb = events[a]['prio'], events[b]['prio']
                    sa, sb = events[a]['seq'], events[b]['seq']
                    ok = g.Or(pa < pb, g.And(pa == pb, sa < sb))
                    if not g.check(ok, 'event-order', w, 'event %s (seq %d) dispatched before %s (seq %d)' % (a, sa, b, sb)):
                        raise_end()
            # (4),(5),(6) handlers of each event
            for n, js in blocks:
                if reflushed:
                    continue
                if len(set(js)) != len(js):
                    g.fail('handler-twice', w, '%s: %s' % (n, js))
                    raise_end()
                for a, b in zip(js, js[1:]):
                    if not g.check(g.Not(hprio[a] < hprio[b]), 'handler-order', w, 'event %s: h%d before h%d' % (n, a, b)):
                        raise_end()
                stopper = state['stoppedby'].get(n)
                missing = [j for j in range(n_handlers) if j not in js]
                if stopper is None:
                    if missing:
                        g.fail('handler-missing', w, 'event %s not stopped, handlers %s never ran' % (n, missing))
                        raise_end()
                else:
                    if js[-1] != stopper:
                        after = js[js.index(stopper) + 1:]
                        for j in after:
                            if not g.check(g.Not(hprio[j] < hprio[stopper]), 'stop-ignored', w,
                                           'event %s: h%d ran after h%d stopped it' % (n, j, stopper)):
                                raise_end()
                    for j in missing:
                        if not g.check(g.Not(hprio[j] > hprio[stopper]), 'stop-suppressed-higher', w,
                                       'event %s: h%d (higher priority) never ran although only h%d stopped' % (n, j, stopper)):
                            raise_end()
        comp.flush()     # drain: a pending `exception` event of the last pass must not go unnoticed
        if state.get('exc'):
            g.fail('unexpected-exception', {'flush': flushes}, str(state['exc'][:2]))
        # (3) re-entrancy
        if state['maxdepth'] > 1:
            g.fail('reentrant-dispatch', {}, 'handler nesting depth %d' % state['maxdepth'])
        # (6) after the last flush everything fired at least `flushes` passes ago is dispatched
        g.note({'events': [(n, str(g.value_of(events[n]['prio']))) for n in order][:8],
                'handler_prios': [str(g.value_of(q)) for q in hprio], 'log': log[:16]})

    def raise_end():
        from pathex import PathEnd
        raise PathEnd('violation recorded')

    return harness


ENC = [M._EventQueue.append, M._EventQueue.dispatchEvents, M.Manager._fire, M.Manager.fireEvent, M.Manager._flush,
       M.Manager._dispatcher, Event.stop]


def canaries():
    from harness.common import mutate
    return [
        ('fifo-tiebreak-reversed', 'event-order', lambda: mutate(M._EventQueue, 'append', 'self._counter += 1', 'self._counter -= 1'), ['event-order']),
        ('decrement-after-dispatch', 'recursive-flush', lambda: mutate(
            M._EventQueue, 'dispatchEvents',
            "self._flush_batch -= 1  # Decrement first!\n        (event, channels) = heappop(self._priority_queue)[2]\n        dispatcher(event, channels, self._flush_batch)",
            "(event, channels) = heappop(self._priority_queue)[2]\n        dispatcher(event, channels, self._flush_batch - 1)\n        self._flush_batch -= 1"), None),
        ('handlers-ascending', 'handler-order-stop', lambda: mutate(M.Manager, '_dispatcher', 'reverse=True', 'reverse=False'), ['handler-order', 'stop-suppressed-higher']),
        ('stop-ignored', 'handler-order-stop', lambda: mutate(M.Manager, '_dispatcher', 'if event.stopped:', 'if event.stopped and False:'), ['stop-ignored']),
        ('stop-ignored-after-error', 'handler-stop-raise', lambda: mutate(M.Manager, '_dispatcher', 'if event.stopped:', 'if event.stopped and err is None:'), ['stop-ignored']),
        ('fire-dispatches-into-running-pass', 'event-order', lambda: mutate(
            M._EventQueue, 'append', 'self._queue.append((priority, self._counter, (event, channel)))',
            'self._queue.append((priority, self._counter, (event, channel)))\n    if self._flush_batch > 0 and priority < 0:\n        heappush(self._priority_queue, self._queue.pop()); self._flush_batch += 1'), None),
    ]


def parts(tier):
    if tier == 'quick':
        return [
            Part('event-order', make_harness(n_ext=3, max_events=4, n_handlers=1, max_depth=2, flushes=3, allow_stop=False),
                 bounds={'external_events_first_pass': 3, 'max_events': 4, 'handlers': 1, 'nesting_depth': 2, 'flushes': 3},
                 encoded=ENC[:-1], clauses=['pass-batch', 'event-order', 'event-dispatched-twice', 'reentrant-dispatch'], budget_s=70),
            Part('handler-order-stop', make_harness(n_ext=1, max_events=2, n_handlers=3, max_depth=1, flushes=2, allow_stop=True),
                 bounds={'external_events_first_pass': 1, 'max_events': 2, 'handlers': 3, 'nesting_depth': 1, 'flushes': 2, 'actions': 'none/fire1/fire2/stop'},
                 encoded=ENC, clauses=['handler-order', 'stop-ignored', 'stop-suppressed-higher', 'handler-missing'], budget_s=70),
            Part('handler-stop-raise', make_harness(n_ext=1, max_events=1, n_handlers=3, max_depth=0, flushes=1, allow_stop=True, allow_raise=True, allow_forward=True),
                 bounds={'external_events_first_pass': 1, 'max_events': 1, 'handlers': 3, 'nesting_depth': 0, 'flushes': 1, 'actions': 'none/stop/raise/stop+raise/stop and re-fire the same event object to another channel'},
                 encoded=ENC, clauses=['handler-order', 'stop-ignored', 'stop-suppressed-higher', 'handler-missing'], budget_s=70),
            Part('two-channels', make_harness(n_ext=1, max_events=1, n_handlers=3, max_depth=0, flushes=1, allow_stop=True, two_channels=True),
                 bounds={'events': 1, 'handlers': 3, 'channels': "event fired to ('a','b'); each handler on 'a' or 'b'", 'stop': True},
                 encoded=ENC + [M.Manager.getHandlers], budget_s=40),
            Part('recursive-flush', make_harness(n_ext=2, max_events=4, n_handlers=1, max_depth=2, flushes=2, allow_stop=False, allow_reflush=True),
                 bounds={'external_events_first_pass': 2, 'max_events': 4, 'handlers': 1, 'nesting_depth': 2, 'flushes': 2, 'recursive_flush': 1},
                 encoded=ENC[:-1], clauses=['lost-event', 'reentrant-dispatch'], budget_s=60),
        ]
    return [
        Part('event-order', make_harness(n_ext=3, max_events=5, n_handlers=1, max_depth=3, flushes=3, allow_stop=False),
             bounds={'external_events_first_pass': 3, 'max_events': 5, 'handlers': 1, 'nesting_depth': 3, 'flushes': 3},
             encoded=ENC[:-1], budget_s=900),
        Part('handler-order-stop', make_harness(n_ext=1, max_events=3, n_handlers=2, max_depth=1, flushes=2, allow_stop=True),
             bounds={'external_events_first_pass': 1, 'max_events': 3, 'handlers': 2, 'nesting_depth': 1, 'flushes': 2},
             encoded=ENC, budget_s=900),
        Part('handler-stop-raise', make_harness(n_ext=2, max_events=2, n_handlers=3, max_depth=0, flushes=1, allow_stop=True, allow_raise=True, allow_forward=True),
             bounds={'external_events_first_pass': 2, 'max_events': 2, 'handlers': 3, 'nesting_depth': 0, 'flushes': 1, 'actions': 'none/stop/raise/stop+raise'},
             encoded=ENC, budget_s=900),
        Part('two-channels', make_harness(n_ext=2, max_events=2, n_handlers=3, max_depth=0, flushes=1, allow_stop=True, two_channels=True),
             bounds={'events': 2, 'handlers': 3, 'channels': "event fired to ('a','b'); each handler on 'a' or 'b'", 'stop': True},
             encoded=ENC + [M.Manager.getHandlers], budget_s=600),
        Part('recursive-flush', make_harness(n_ext=3, max_events=5, n_handlers=1, max_depth=2, flushes=2, allow_stop=False, allow_reflush=True),
             bounds={'external_events_first_pass': 3, 'max_events': 5, 'handlers': 1, 'nesting_depth': 2, 'flushes': 2, 'recursive_flush': 1},
             encoded=ENC[:-1], budget_s=600),
    ]


if __name__ == '__main__':
    sys.exit(run_property(sys.modules[__name__]))
