#!/bin/sh
# usage: tools/calibrate.sh <budget-seconds> [ID ...]  -- development aid: run every thorough part of the given checks
# against a scratch copy of /repo (VERIF_REPO, no evidence written) and print whether it closes within the budget.
B=$1; shift
cd "$(dirname "$0")/.."
IDS="$@"; [ -z "$IDS" ] && IDS="C01 C02 C03 C04 C05 C06 C07 C08 C09 C10 C11 C12 C13 C14 C15 C16 C17 C18 C19 C20"
WT=${VERIF_REPO:-/tmp/calib_repo}
[ -d "$WT" ] || git -C /repo worktree add -q --detach "$WT" HEAD
for id in $IDS; do
  m=$(echo $id | tr 'A-Z' 'a-z')
  NAMES=$(PYTHONPATH=$WT:. /verif/.venv/bin/python -c "import harness.$m as m; print(' '.join(p.name for p in m.parts('thorough')))")
  for n in $NAMES; do
    S=$(date +%s)
    L=$(VERIF_REPO=$WT bin/check $id --tier thorough --part $n --budget $B 2>&1 | grep -E "^  part|^VIOLATION|^HARNESS" | head -2 | tr '\n' ' ' | cut -c1-200)
    echo "$id $(( $(date +%s) - S ))s $L"
  done
done
