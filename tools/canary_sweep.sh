#!/bin/sh
# usage: tools/canary_sweep.sh [ID ...]  -- run the in-memory canaries of every check (self-test of the oracles); exit 1 if one is missed
cd "$(dirname "$0")/.."
IDS="$@"; [ -z "$IDS" ] && IDS="C01 C02 C03 C04 C05 C06 C07 C08 C09 C10 C11 C12 C13 C14 C15 C16 C17 C18 C19 C20"
BAD=0
for id in $IDS; do
  OUT=$(VERIF_SCRATCH=1 bin/check $id --tier quick --canaries 2>&1); RC=$?
  N=$(echo "$OUT" | grep -c "^canary ")
  M=$(echo "$OUT" | grep "^canary " | grep -c "caught=False")
  echo "$id canaries=$N missed=$M rc=$RC"
  echo "$OUT" | grep "^canary " | grep "caught=False" | cut -c1-200
  echo "$OUT" | grep -E "HarnessError|Traceback" | head -2
  [ $M -gt 0 ] && BAD=1
  [ $N -eq 0 ] && BAD=1
done
exit $BAD
