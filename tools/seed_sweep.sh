#!/bin/sh
# usage: tools/seed_sweep.sh [id ...]   -- for every kept seeded change (seeded/<id>/patch.diff): apply it to /repo, run the
# property's quick check, revert; record the outcome in seeded/<id>/detection.txt.  Exit 1 if some change is not detected.
cd "$(dirname "$0")/.."
IDS="$@"; [ -z "$IDS" ] && IDS=$(ls seeded | grep -v rejected)
MISS=0
for id in $IDS; do
  d=seeded/$id; P=$(echo $id | cut -c1-3)
  git -C /repo diff --quiet || { echo "repo dirty"; exit 2; }
  if ! git -C /repo apply "$PWD/$d/patch.diff" 2>/dev/null; then echo "$id: PATCH DOES NOT APPLY"; MISS=1; continue; fi
  S=$(date +%s)
  OUT=$(VERIF_SCRATCH=1 timeout 1500 bin/check $P --tier quick 2>&1); RC=$?
  E=$(date +%s)
  git -C /repo checkout -q -- .
  CL=$(echo "$OUT" | grep -o "violated clause '[^']*' in part [A-Za-z0-9_-]*" | sort | uniq -c | sort -rn | head -4 | sed "s/ *\([0-9]*\) violated clause '\([^']*\)' in part \(.*\)/\3:\2/" | tr '\n' ' ')
  NV=$(echo "$OUT" | grep -c "^VIOLATION")
  {
    echo "seeded change $id applied to /repo $(git -C /repo rev-parse --short HEAD), checks at $(git rev-parse --short HEAD)$(git diff --quiet || echo '+')"
    echo "command: bin/check $P --tier quick   exit=$RC  wall=$((E-S))s  VIOLATION lines=$NV"
    echo "clauses (part:clause): $CL"
    echo "$OUT" | grep -E "^VIOLATION|^HARNESS|^INCONCL|^$P quick" | head -6
  } > $d/detection.txt
  if [ $RC -eq 1 ] && [ $NV -gt 0 ]; then echo "$id: detected rc=$RC $CL"; else echo "$id: NOT DETECTED rc=$RC"; MISS=1; fi
done
exit $MISS
