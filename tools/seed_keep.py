#!/usr/bin/env python3
"""usage: seed_keep.py <PROP> <A|B> <needs> <detected-by>   -- store a confirmed seeded change under /verif/seeded/"""
import json, os, shutil, sys
P, X, needs, detected = sys.argv[1:5]
src = '%s/%s' % (os.environ.get('SEED_OUT', '/tmp/seed/out'), P)
dst = '/verif/seeded/%s-%s' % (P, os.environ.get('SEED_NAME', X))
os.makedirs(dst, exist_ok=True)
shutil.copy('%s/mut%s.diff' % (src, X), '%s/patch.diff' % dst)
shutil.copy('%s/demo%s.py' % (src, X), '%s/demo.py' % dst)
val = open('/tmp/seed/val/%s%s_%s.txt' % (os.environ.get('SEED_TAG', ''), P, X)).read()
open('%s/validation.txt' % dst, 'w').write(val)
meta = {
    'property': P, 'id': '%s-%s' % (P, os.environ.get('SEED_NAME', X)), 'origin': 'independent sub-agent given only the property text and a scratch worktree',
    'needs_to_manifest': needs,
    'confirmed': {
        'how': 'tools/seed_validate.sh: scratch worktree of /repo HEAD; demo on clean tree (must PASS), patch applied, demo (must FAIL), full test suite',
        'demo_clean_prints_PASS': 'PASS' in val.split('-- patch applied')[0],
        'demo_mutated_fails': 'exit=1' in val.split('-- patch applied')[-1],
        'suite_line': [l for l in val.splitlines() if ' passed' in l and l.startswith('=')][:1] or None,
        'suite_failures_other_than_the_no_network_lookup_tests': [l.split(' - ')[0] for l in val.splitlines() if l.startswith('FAILED') and 'test_tcp_lookup_failure' not in l],
        'those_rerun_alone_with_the_change_applied': [l.strip() for l in val.split('-- recheck')[-1].splitlines()[1:] if l.strip()] if '-- recheck' in val else [],
    },
    'detected_by': detected,
    'apply': 'git -C /repo apply seeded/%s-%s/patch.diff ; bin/check %s ; git -C /repo checkout -- .' % (P, os.environ.get('SEED_NAME', X), P),
}
json.dump(meta, open('%s/meta.json' % dst, 'w'), indent=1)
print('kept', dst, meta['confirmed'])
