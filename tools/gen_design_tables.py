#!/usr/bin/env python3
"""Fill the generated blocks of DESIGN.md: quick parts (from evidence/*.json) and the seeded-change table
(from seeded/*/meta.json, seeded/*/detection.txt and seeded/round1_notes.json)."""
import glob, json, os, re
V = os.path.dirname(os.path.dirname(os.path.abspath(__file__)))
MISSED_R2 = {'C02-A2', 'C02-B2', 'C03-A2', 'C04-A2', 'C05-A2', 'C06-B2', 'C07-A2', 'C08-B2', 'C09-B2', 'C10-A2', 'C10-B2', 'C11-A2', 'C11-B2',
             'C12-B2', 'C14-A2', 'C14-B2', 'C15-B2', 'C16-A2', 'C16-B2', 'C20-A2'}

MISSED_R3 = {'C02-B3', 'C05-B3', 'C06-A3', 'C06-B3', 'C11-B3', 'C14-A3', 'C15-B3', 'C16-A3', 'C16-B3'}


def parts_block():
    out = []
    for f in sorted(glob.glob(V + '/evidence/C*.json')):
        d = json.load(open(f))
        ps = d['coverage']['parts']
        out.append('* %s (%s, %.0f s): %s' % (d['property_id'], d['tier'], d['wall_s'], '; '.join('%s (%s, %s paths)' % (p['part'], p['engine'], p['paths']) for p in ps)))
    th = sorted(glob.glob(V + '/evidence/thorough/C*.json'))
    if th:
        out.append('')
        out.append('Thorough tier (last end-to-end run, `evidence/thorough/`):')
        out.append('')
        for f in th:
            d = json.load(open(f))
            ps = d['coverage']['parts']
            out.append('* %s (%.0f s, closed=%s): %s' % (d['property_id'], d['wall_s'], d['coverage']['tree_closed'], '; '.join('%s (%s paths)' % (p['part'], p['paths']) for p in ps)))
    return '\n'.join(out)


def seeds_block():
    r1 = json.load(open(V + '/seeded/round1_notes.json'))
    out = ['| change | needs | detected by (final sweep: part:clause) |', '|---|---|---|']
    for d in sorted(glob.glob(V + '/seeded/C*')):
        sid = os.path.basename(d)
        meta = json.load(open(d + '/meta.json'))
        det = ''
        if os.path.exists(d + '/detection.txt'):
            t = open(d + '/detection.txt').read()
            m = re.search(r'clauses \(part:clause\): (.*)', t)
            rc = re.search(r'exit=(\d+)', t)
            det = '%s quick, exit %s: %s' % (sid[:3], rc.group(1) if rc else '?', m.group(1).strip() if m else '')
        missed = r1.get(sid, {}).get('missed_first') or sid in MISSED_R2 or sid in MISSED_R3
        note = ''
        if sid in r1 and '(added after' in r1[sid]['detected_by']:
            note = ' (check extended after this change was first missed)'
        elif sid in MISSED_R2 or sid in MISSED_R3:
            note = ' (check extended after this change was first missed)'
        out.append('| %s%s | %s | %s%s |' % (sid, '+' if missed else '', meta['needs_to_manifest'][:330], det, note))
    return '\n'.join(out)


def main():
    p = V + '/DESIGN.md'
    s = open(p).read()
    for name, fn in (('parts', parts_block), ('seeds', seeds_block)):
        a, b = '<!-- BEGIN:%s -->' % name, '<!-- END:%s -->' % name
        i, j = s.index(a) + len(a), s.index(b)
        s = s[:i] + '\n' + fn() + '\n' + s[j:]
    open(p, 'w').write(s)


if __name__ == '__main__':
    main()
