#!/usr/bin/env python3
"""Regenerates /verif/MANIFEST.json from the table below (kept here so that the manifest stays valid and uniform)."""
import json
import os

HERE = os.path.dirname(os.path.dirname(os.path.abspath(__file__)))

TECH = 'bounded symbolic execution of the real code with z3 (pathex)'
TECH_XH = 'bounded symbolic execution of the real code: CrossHair (z3) on leaf kernels + pathex (z3) on components'

CHECKS = {
    'C01': dict(engine='pathex', technique=TECH, ref='DESIGN.md 4/C01',
                text='bounded symbolic execution of the real handler registry, cache and dispatcher: the operation history '
                     '(register/unregister/addHandler/removeHandler/probe bundles over every name x target channel/flush) is a vector of '
                     'solver-enumerated choice variables; every history within the bound is executed and the receivers of every probe '
                     'are compared with the statement\'s matching rule, so a pass covers all histories up to the stated length and pool',
                note='trusted: z3, pathex, the ghost handler tables kept by the harness, the public parent/components links (checked by C07); '
                     'history length and pool size bounded (evidence.bounds)'),
    'C02': dict(engine='pathex', technique=TECH, ref='DESIGN.md 4/C02',
                text='bounded symbolic execution of the real queue/heap/dispatcher: event and handler priorities are z3 reals, handler '
                     'programs are finite choices; every path within the bounds is executed and its ordering assertions are discharged by '
                     'z3 (unsat), so the pass holds for all priority values (negative, fractional, equal) within the stated numbers of '
                     'events/handlers/nesting',
                note='trusted: z3, the pathex proxies, the ghost log kept by generated handlers; bounds in evidence; single-threaded stepping '
                     'with fire()/flush()'),
    'C03': dict(engine='pathex', technique='bounded exploration of thread schedules of the real code, schedule positions as solver-enumerated variables (pathex)', ref='DESIGN.md 4/C03',
                text='the schedule is the symbolic variable: the real Manager.run() thread and the firing thread(s) run one at a time under '
                     'a baton, every source line of the traced circuits functions is a pre-emption point, and the positions of at most P '
                     'pre-emptions (k traced lines after a thread got the baton) and the thread taking over are choice variables '
                     'enumerated exhaustively; every schedule within the bound must dispatch each fired event exactly once in '
                     'per-thread order and must never leave the loop blocked in its idle wait (untimed, or bounded by a timer: no timeout may be needed) with a non-empty queue',
                note='trusted: the scheduler (sys.settrace line events, scheduler-aware RLock/Event doubles) and pathex; fall-back idle '
                     'generator and the control-pipe wake-up of Select/Poll/EPoll (pipe and select/poll/epoll are doubles); P pre-emptions within the stated windows; pre-emption inside one source line is not explored'),
    'C04': dict(engine='pathex', technique=TECH, ref='DESIGN.md 4/C04',
                text='bounded symbolic execution of the real dispatcher/task/Value code over all combinations of handler shapes '
                     '(return/None/falsy/raise/generators yielding k values or raising at step j) and feedback flags for up to the stated '
                     'number of handlers; value, errors flag and the exception/failure/success events are checked against a ghost log',
                note='trusted: z3/pathex, ghost log; shapes catalogue and handler count bounded; list-typed and Value-typed results outside'),
    'C05': dict(engine='pathex', technique=TECH, ref='DESIGN.md 4/C05',
                text='bounded symbolic execution of the real cause/effects bookkeeping over all event trees up to the stated size/depth '
                     '(cancelled, stopped, raising, complete-requesting children; children fired from generator steps; two roots): '
                     '<name>_complete exactly once and after the last handler of the closure',
                note='trusted: z3/pathex, ghost causality tree; tree size/depth bounded'),
    'C06': dict(engine='pathex', technique=TECH, ref='DESIGN.md 4/C06',
                text='bounded symbolic execution of the real call/wait/task machinery over all acyclic three-level handler programs up to '
                     'the stated number of steps (yield, call, wait by object/name, return, raise before/after a yield; two roots) and with '
                     'the timeout as a z3 Int: exactly-once resumption, received value and error flag, completion of the caller, no '
                     'leftover handlers/tasks, bounded termination',
                note='trusted: z3/pathex, ghost log; program size bounded; timeout in [-1,3]'),
    'C07': dict(engine='pathex', technique=TECH, ref='DESIGN.md 4/C07',
                text='bounded symbolic execution of the real register/unregister protocol over all operation histories '
                     '(register/unregister/probe/tick of any root) up to the stated length and pool: forest consistency of the real object '
                     'graph after every step, one registered/unregistered announcement per operation, probes neither lost, duplicated nor '
                     'crossing trees, every unregistration completes',
                note='trusted: z3/pathex, ghost forest; one recorded known finding (ancestor detaches first) is reported as KNOWN-FINDING'),
    'C08': dict(engine='pathex', technique=TECH, ref='DESIGN.md 4/C08',
                text='bounded symbolic execution of the real run()/stop()/tick() loop executed in the checking thread or launched with start(): stop placement '
                     '(started / mid-chain / generator step / real second thread at the idle wait), stop kind, chain lengths and run '
                     'cycles are solver-enumerated choices and the exit code is an unconstrained z3 Int; started/stopped exactly once, '
                     'everything fired is dispatched before run() ends, exit code equality discharged by z3, stop() when not running is a no-op',
                note='trusted: z3/pathex, the idle-wait double (a real second thread performs the scripted stop at the untimed wait), no-op signal/atexit'),
    'C09': dict(engine='pathex', technique=TECH, ref='DESIGN.md 4/C09',
                text='bounded symbolic execution of the real Timer / generate_events / fall-back idle code with the wall clock as a '
                     'symbolic variable: intervals, clock advances between iterations and idle-wait durations are z3 Reals; not-early, '
                     'one-interval-apart, no-fire-after-unregister, idle-wait-never-past-earliest-expiry and due-timer-fires-now are '
                     'discharged by z3 for every value within the stated numbers of timers/iterations',
                note='trusted: z3/pathex; the clock/Event doubles and their contracts (non-decreasing clock constant within an iteration, '
                     'wait(t) returns within t); datetime deadlines and Sleep outside'),
    'C10': dict(engine='pathex', technique=TECH, ref='DESIGN.md 4/C10',
                text='bounded symbolic execution of the real Select/Poll/EPoll registration and event code on a stub kernel over all '
                     'histories of addReader/addWriter/removeReader/removeWriter/discard/close/re-open (descriptor number reuse) and '
                     'poll iterations with chosen readiness up to the stated length: the _read/_write events and their target channel '
                     'equal the set model, the kernel table mirrors the interest sets, closed descriptors get no readiness events',
                note='trusted: z3/pathex and the stub kernel (Linux select/poll/epoll registration semantics, validated against the real '
                     'kernel on fixed histories by tools/validate_stubkernel.py); hang-up bits and KQueue outside'),
    'C11': dict(engine='pathex', technique=TECH, ref='DESIGN.md 4/C11',
                text='bounded symbolic execution of the real write/close paths of Server, Client and File with the outcome of every '
                     'send()/os.write() as a solver variable (accept k of n bytes with k a z3 Int, or raise a transient/fatal errno) '
                     'over all write/close/writability histories up to the stated length: accepted bytes are always a prefix and finally '
                     'all of what was written, close after the buffer, nothing sent after close, fatal errors signalled, writer '
                     'interest dropped',
                note='trusted: z3/pathex, the scripted socket/fd doubles (BSD send contract; a broken connection stays broken); payloads <= 3 bytes'),
    'C12': dict(engine='pathex', technique=TECH, ref='DESIGN.md 4/C12',
                text='bounded symbolic execution of the real TCPServer on each real poller component over a stub kernel with scripted '
                     'sockets, over all histories of peer actions (connect/send/half-close/abort/stop reading) interleaved with server '
                     'writes and closes (also late) and loop iterations up to the stated length: per socket connect, read*, disconnect '
                     'exactly, reads equal to what the peer sent, nothing after disconnect, no state retained by server, poller or '
                     'kernel table',
                note='trusted: z3/pathex, stub kernel and scripted sockets (readiness derived from the peer script); one recorded known '
                     'finding (failed write after a peer reset drops unread data)'),
    'C13': dict(engine='pathex', technique=TECH, ref='DESIGN.md 4/C13',
                text='bounded symbolic execution of the real HTTP parser and HTTP components: for every message of a request/response '
                     'grammar the cut positions are z3 Ints ranging over every byte boundary (single cuts, byte-at-a-time; pairs of '
                     'cuts in the thorough tier); the request events seen by handlers and the bytes written back are compared with '
                     'one-piece delivery (differential oracle), for the server and for the client component',
                note='trusted: z3/pathex, the web rig (sink in place of the TCP server); messages limited to the grammar in harness/c13.py'),
    'C14': dict(engine='pathex', technique=TECH, ref='DESIGN.md 4/C14',
                text='bounded symbolic execution of the real HTTP component and parser on hostile input: base request x mutation '
                     'catalogue (one mutation with every truncation offset as a z3 Int, pairs of mutations on whole messages) x '
                     'disconnect; outcome must be waiting, exactly one response accepted by an independent parser (http.client) with '
                     '4xx/5xx for rejected input and Connection: close iff closed, or a plain close; no request event for rejected '
                     'input, nothing escapes tick(), no per-connection state after disconnect, the loop still serves afterwards',
                note='trusted: z3/pathex, the web rig, http.client as the independent response parser; inputs limited to the catalogue in harness/c14.py'),
    'C15': dict(engine='pathex', technique=TECH, ref='DESIGN.md 4/C15',
                text='bounded symbolic execution of the real response path (Response.prepare, Body, HTTP._on_response/_on_stream) over '
                     'the product body kind x size x status x HTTP version x Connection header x method x streaming, and pairs of '
                     'requests on one connection: the bytes written are decoded by http.client (independent implementation) and '
                     'status, body, Content-Length, no-body statuses, close-iff-announced and per-connection state reset are checked',
                note='trusted: z3/pathex, the web rig, http.client as reference; body sizes limited to {0,1,5,4097}'),
    'C16': dict(engine='pathex+crosshair', technique=TECH_XH, ref='DESIGN.md 4/C16',
                text='bounded symbolic execution of the real Static dispatcher, serve_file and get_ranges: request paths are sequences '
                     'of up to 3 (thorough: 4) segment choices from a hostile/benign alphabet over a real directory tree with secrets '
                     'outside the docroot, behind the HTTP front end and handed over directly (markers and an open() audit hook as '
                     'oracle); get_ranges with a symbolic header string and length under CrossHair, and with a,b,n as solver-enumerated '
                     'ints against an RFC 7233 reference; Range grammar served on files of size 0/1/10',
                note='trusted: z3/pathex, CrossHair, the RFC 7233 reference in harness/c16.py, http.client; paths limited to the segment alphabet '
                     '(normpath is C code)'),
    'C17': dict(engine='pathex+crosshair', technique=TECH_XH, ref='DESIGN.md 4/C17',
                text='bounded symbolic execution of the real WebSocket codec against an independent RFC 6455 encoder/decoder: payload '
                     'lengths at every encoding boundary, masked/unmasked, text/binary, server/client mode, cut positions as z3 Ints '
                     'over the header / extended length / masking key / frame end, fragmentation programs with an interleaved ping, '
                     'the close handshake, and the encoder for all three length encodings; CrossHair additionally explores payload '
                     'contents and masking key on the decoder kernel (bug-hunting: its conditions do not close and are listed as not discharged)',
                note='trusted: z3/pathex, CrossHair, the RFC 6455 reference in harness/c17.py; payloads up to 65537 bytes, valid UTF-8 text'),
    'C18': dict(engine='pathex+crosshair', technique=TECH_XH, ref='DESIGN.md 4/C18',
                text='bounded symbolic execution of the real line splitter / Line component and of IRC message construction: byte '
                     'streams over a token alphabet (CR, LF, CRLF, empty lines, a 2-byte UTF-8 character) with cut positions as z3 '
                     'Ints, two sockets interleaved byte by byte in server mode, every irc.commands constructor and Message on hostile '
                     'argument / command / prefix strings (refused, or exactly one CRLF line that parses back); CrossHair on splitLines '
                     'and Message.__str__ with symbolic bytes/str contents',
                note='trusted: z3/pathex, CrossHair, the reference split in harness/c18.py; round trip demanded only for arguments the IRC grammar can represent'),
    'C19': dict(engine='pathex', technique=TECH, ref='DESIGN.md 4/C19',
                text='bounded symbolic execution of the real node Protocol and its (de)serialisation: two Protocol instances under their '
                     'own managers wired back to back, the byte stream cut at positions that are z3 Ints (around every delimiter, at '
                     'the start) or coarse choices, 1-2 (thorough: 3) events in flight, firewalls, both directions at once; hostile '
                     'packets: 14 JSON mutations and every metadata key that manager.py/events.py/values.py read from an event '
                     '(computed from the AST of the current source) with hostile values; dump/load round trip over a grammar',
                note='trusted: z3/pathex; the sender coroutine is advanced by the harness; one recorded known finding (a raising remote handler never answers)'),
    'C20': dict(engine='pathex+crosshair', technique=TECH_XH, ref='DESIGN.md 4/C20',
                text='bounded symbolic execution of the real credential check, session binding and virtual-host code behind the HTTP '
                     'component: every Authorization header of a grammar over Basic and Digest (correct Digest responses from an '
                     'independent RFC 2617 routine) x user tables x methods x two application idioms, with "protected result served" '
                     'equivalent to "credentials verify"; pairs of requests over cookie x address x user agent; trusted-gateway '
                     'configuration x remote address x X-Forwarded-Host; CrossHair on the credential check with a symbolic header '
                     '(bug-hunting: does not close, listed as not discharged)',
                note='trusted: z3/pathex, CrossHair, the RFC 2617 reference in harness/c20.py; header grammar in harness/c20.py'),
}

NOT_YET = {
}

NA = {
}


def main():
    ids = ['C%02d' % i for i in range(1, 21)]
    checks = []
    for pid in ids:
        c = CHECKS.get(pid)
        if not c:
            continue
        checks.append({
            'property_id': pid,
            'quick_cmd': 'bin/check %s --tier quick' % pid,
            'thorough_cmd': 'bin/check %s --tier thorough' % pid,
            'evidence_file': 'evidence/%s.json' % pid,
            'replay_cmd_template': 'bin/check %s --replay {path}' % pid,
            'engine': c['engine'],
            'level_claimed': {'category': 'other', 'text': c['text'], 'design_ref': c['ref']},
            'level_note': c['note'],
            'technique': c['technique'],
        })
    na = []
    for pid in ids:
        if pid in CHECKS:
            continue
        na.append({'property_id': pid, 'reason': NA.get(pid, 'no check built yet in this session (planned with the same technique, see DESIGN.md section 4); not claimed')})
    m = {
        'version': 1,
        'setup_cmd': 'bin/ensure-env',
        'hooks': {
            'guard': 'CIRCUITS_VERIF',
            'enable': 'no hooks in /repo: all environment doubles are installed through module globals from the harness process',
            'baseline_off_cmd': 'cd /repo && /venv/bin/python -m pytest -ra -q -p no:cacheprovider --timeout=900 --continue-on-collection-errors',
            'source_commits': [],
            'add_only': True,
        },
        'engines': [
            {'name': 'pathex', 'path': 'pathex/', 'serves_properties': sorted(k for k, v in CHECKS.items() if 'pathex' in v['engine']),
             'kind_free_text': 'own symbolic path explorer on z3 (operator-overloading proxies, DPLL by re-execution, path-condition work items) that runs the real circuits code natively'},
            {'name': 'crosshair', 'path': 'harness/xh.py', 'serves_properties': sorted(k for k, v in CHECKS.items() if 'crosshair' in v['engine']),
             'kind_free_text': 'CrossHair 0.0.110 (symbolic execution of Python with z3) on leaf kernels with symbolic str/bytes contents'},
        ],
        'checks': checks,
        'not_applicable': na,
        'notes': 'All checks: exit 0 = held within the stated bounds, 1 = VIOLATION (replayed concretely first), 3 = harness error/inconclusive. '
                 'Known findings: known_findings.json. Canaries (in-memory mutations): bin/check <ID> --canaries.',
    }
    json.dump(m, open(os.path.join(HERE, 'MANIFEST.json'), 'w'), indent=1)
    print('wrote MANIFEST.json with %d checks, %d not claimed' % (len(checks), len(na)))


if __name__ == '__main__':
    main()
