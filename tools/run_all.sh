#!/bin/sh
# usage: tools/run_all.sh [quick|thorough]  -- run every registered check once, print one line each
TIER=${1:-quick}
cd "$(dirname "$0")/.."
for i in 01 02 03 04 05 06 07 08 09 10 11 12 13 14 15 16 17 18 19 20; do
  S=$(date +%s)
  OUT=$(bin/check C$i --tier $TIER 2>&1); RC=$?
  E=$(date +%s)
  echo "C$i rc=$RC $((E-S))s $(echo "$OUT" | grep "^C$i $TIER" | cut -c1-200)"
  echo "$OUT" | grep -E "^VIOLATION|^HARNESS|^INCONCLUSIVE " | head -3
done
