#!/bin/sh
# usage: seed_try.sh <diff> <PROP> [extra args]  -- apply a seeded change to /repo, run the quick check, revert
D=$1; P=$2; shift 2
cd /repo && git diff --quiet || { echo "repo dirty"; exit 2; }
git apply "$D" 2>/dev/null || git apply --3way "$D" 2>/dev/null || { git reset -q --hard HEAD; echo "patch does not apply"; exit 2; }
git reset -q 2>/dev/null
cd /verif && VERIF_SCRATCH=1 timeout 1500 bin/check $P "$@" 2>&1 | grep -E "^VIOLATION|^KNOWN|^HARNESS|^INCONCL|^  part|^$P|violated clause" | cut -c1-400
cd /repo && git checkout -q -- . && git status --short | head -3
