#!/bin/sh
# usage: seed_validate.sh <PROP> <A|B>   -- validates /tmp/seed/out/<PROP>/mut<X>.diff + demo<X>.py against /repo HEAD
# result: /tmp/seed/val/<PROP>_<X>.txt
P=$1; X=$2
OUT=/tmp/seed/val; mkdir -p $OUT
R=$OUT/${SEED_TAG:-}${P}_$X.txt
WT=/tmp/seed/valwt_$$
exec 9>/tmp/seed/val.lock; flock 9
git -C /repo worktree add -q --detach $WT HEAD || exit 2
cd $WT
{
echo "== $P $X on $(git rev-parse --short HEAD)"
echo "-- demo on clean tree:"; PYTHONPATH=$WT timeout 120 /venv/bin/python ${SEED_OUT:-/tmp/seed/out}/$P/demo$X.py 2>&1 | tail -3; echo "exit=$?"
if git apply ${SEED_OUT:-/tmp/seed/out}/$P/mut$X.diff 2>/tmp/seed/val/apply_$$.err || git apply --3way ${SEED_OUT:-/tmp/seed/out}/$P/mut$X.diff 2>>/tmp/seed/val/apply_$$.err; then
  echo "-- patch applied"; git diff --stat | tail -1
  echo "-- demo on mutated tree:"; PYTHONPATH=$WT timeout 120 /venv/bin/python ${SEED_OUT:-/tmp/seed/out}/$P/demo$X.py > /tmp/seed/val/demo_$$.out 2>&1; echo "exit=$?"; tail -3 /tmp/seed/val/demo_$$.out
  echo "-- suite on mutated tree:"; PYTHONPATH=$WT timeout 1500 /venv/bin/python -m pytest -q -p no:cacheprovider --timeout=900 2>&1 | grep -aE "^(FAILED|ERROR)|passed|failed" | tail -8
else
  echo "-- PATCH DOES NOT APPLY"; cat /tmp/seed/val/apply_$$.err
fi
} > $R 2>&1
cd /; git -C /repo worktree remove --force $WT
rm -f /tmp/seed/val/apply_$$.err /tmp/seed/val/demo_$$.out
