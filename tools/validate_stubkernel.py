#!/usr/bin/env python3
"""Translation validation of harness/stubkernel.py: fixed registration histories are run side by side against the stub
and against the real kernel (socketpairs); every result and every exception type/errno must agree.
exit 0 = agree on all histories."""
import errno
import os
import select as real
import socket
import sys

sys.path.insert(0, os.path.dirname(os.path.dirname(os.path.abspath(__file__))))
from harness.stubkernel import StubKernel  # noqa: E402

IN, OUT, HUP, ERR, NVAL = real.POLLIN, real.POLLOUT, real.POLLHUP, real.POLLERR, real.POLLNVAL


class RealSide:
    def __init__(self):
        self.pairs = {}
        self.mod = real

    def open(self, slot):
        a, b = socket.socketpair()
        a.setblocking(False)
        b.setblocking(False)
        self.pairs[slot] = (a, b)
        return a

    def obj(self, slot):
        return self.pairs[slot][0]

    def make_readable(self, slot):
        self.pairs[slot][1].send(b'x')

    def close(self, slot):
        self.pairs[slot][0].close()

    def cleanup(self):
        for a, b in self.pairs.values():
            for s in (a, b):
                try:
                    s.close()
                except Exception:
                    pass


class StubSide:
    def __init__(self):
        self.mod = StubKernel(first_free=1000)
        self.objs = {}

    def open(self, slot):
        o = self.mod.new_fd('s%s' % slot)
        o.writable = True
        self.objs[slot] = o
        return o

    def obj(self, slot):
        return self.objs[slot]

    def make_readable(self, slot):
        self.objs[slot].readable = True

    def close(self, slot):
        self.objs[slot].close()

    def cleanup(self):
        pass


def norm_exc(e):
    if isinstance(e, OSError) and not isinstance(e, (ValueError,)):
        return ('OSError', errno.errorcode.get(e.errno, e.errno), type(e).__name__)
    return (type(e).__name__,)


def run(side, kind, hist):
    out = []
    slots = {}
    p = None
    if kind == 'poll':
        p = side.mod.poll()
    elif kind == 'epoll':
        p = side.mod.epoll()
    number = {}

    def bynum(res):
        inv = {}
        for s, n in number.items():
            inv.setdefault(n, []).append(s)
        return sorted((tuple(sorted(inv.get(n, ['?']))), ev) for n, ev in res)

    for op in hist:
        try:
            if op[0] == 'open':
                o = side.open(op[1])
                number[op[1]] = o.fileno()
                out.append(('open', op[1]))
            elif op[0] == 'readable':
                side.make_readable(op[1])
                out.append(('readable', op[1]))
            elif op[0] == 'close':
                side.close(op[1])
                out.append(('close', op[1]))
            elif op[0] == 'reg':
                p.register(side.obj(op[1]), op[2])
                out.append(('reg-ok',))
            elif op[0] == 'regnum':
                p.register(number[op[1]], op[2])
                out.append(('regnum-ok',))
            elif op[0] == 'unreg':
                p.unregister(side.obj(op[1]))
                out.append(('unreg-ok',))
            elif op[0] == 'unregnum':
                p.unregister(number[op[1]])
                out.append(('unregnum-ok',))
            elif op[0] == 'poll':
                res = p.poll(0)
                out.append(('poll', bynum(res)))
            elif op[0] == 'select':
                r, w, x = side.mod.select([side.obj(s) for s in op[1]], [side.obj(s) for s in op[2]], [], 0)
                lab = lambda lst: sorted(s for s in set(op[1] + op[2]) if side.obj(s) in lst)  # noqa: E731
                out.append(('select', lab(r), lab(w)))
        except Exception as e:  # noqa
            out.append(('exc', op[0]) + norm_exc(e))
    side.cleanup()
    if p is not None and hasattr(p, 'close'):
        try:
            p.close()
        except Exception:
            pass
    return out


HISTORIES = []
for kind in ('poll', 'epoll'):
    H = [
        [('open', 0), ('reg', 0, IN), ('poll',), ('readable', 0), ('poll',), ('unreg', 0), ('poll',)],
        [('open', 0), ('reg', 0, IN | OUT), ('poll',), ('readable', 0), ('poll',)],
        [('open', 0), ('reg', 0, OUT), ('reg', 0, IN), ('poll',)],
        [('open', 0), ('unreg', 0)],
        [('open', 0), ('reg', 0, IN | OUT), ('unreg', 0), ('unreg', 0)],
        [('open', 0), ('reg', 0, OUT), ('close', 0), ('poll',), ('unreg', 0)],
        [('open', 0), ('reg', 0, OUT), ('close', 0), ('unregnum', 0), ('poll',)],
        [('open', 0), ('reg', 0, OUT), ('close', 0), ('open', 1), ('poll',)],
        [('open', 0), ('reg', 0, IN), ('close', 0), ('open', 1), ('readable', 1), ('poll',), ('reg', 1, IN), ('poll',)],
        [('open', 0), ('close', 0), ('reg', 0, IN)],
        [('open', 0), ('close', 0), ('regnum', 0, IN), ('poll',)],
        [('open', 0), ('open', 1), ('reg', 0, IN), ('reg', 1, OUT), ('readable', 1), ('poll',)],
    ]
    HISTORIES += [(kind, h) for h in H]
HISTORIES += [('select', h) for h in [
    [('open', 0), ('open', 1), ('select', [0, 1], [0, 1]), ('readable', 1), ('select', [0, 1], [0])],
    [('open', 0), ('close', 0), ('select', [0], [])],
    [('open', 0), ('open', 1), ('close', 1), ('select', [0], [1])],
]]


def main():
    bad = 0
    for kind, h in HISTORIES:
        a = run(RealSide(), kind, h)
        b = run(StubSide(), kind, h)
        if a != b:
            bad += 1
            print('MISMATCH %s %s\n  real: %s\n  stub: %s' % (kind, h, a, b))
    print('stub kernel validation: %d histories, %d mismatches' % (len(HISTORIES), bad))
    return 1 if bad else 0


if __name__ == '__main__':
    sys.exit(main())
