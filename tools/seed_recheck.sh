#!/bin/sh
# usage: seed_recheck.sh <validation-file> <diff>   -- re-runs, alone and on a quiet tree with the change applied, the test
# files that failed in the full-suite run of a validation (other than the no-network lookup tests); appends the outcome.
V=$1; D=$2
FILES=$(grep -a '^FAILED' $V | grep -v test_tcp_lookup_failure | sed 's/^FAILED //; s/::.*//' | sort -u)
[ -z "$FILES" ] && exit 0
WT=/tmp/seed/rcwt_$$
exec 9>/tmp/seed/val.lock; flock 9
git -C /repo worktree add -q --detach $WT HEAD || exit 2
cd $WT
git apply $D || git apply --3way $D
{
echo "-- recheck of failed test files alone, change applied:"
for f in $FILES; do
  r=$(PYTHONPATH=$WT timeout 600 /venv/bin/python -m pytest -q -p no:cacheprovider --timeout=300 $f 2>&1 | grep -aE "passed|failed" | tail -1)
  case "$r" in *failed*) r="$r | second try: $(PYTHONPATH=$WT timeout 600 /venv/bin/python -m pytest -q -p no:cacheprovider --timeout=300 $f 2>&1 | grep -aE 'passed|failed' | tail -1)";; esac
  echo "   $f: $r"
done
} >> $V
cd /; git -C /repo worktree remove --force $WT
