"""pathex -- a small symbolic path explorer on z3 that runs *real* Python code.

Inputs are z3 terms wrapped in proxies (SymInt / SymReal / SymBool) that
overload arithmetic and comparison; the code under test runs natively on
them.  Whenever Python needs the truth value of a symbolic condition the
engine decides one side from the current model, asks z3 whether the other
side is satisfiable together with the path condition, and if so queues that
side for re-execution (DPLL by re-execution, one harness run per path).

Work items are *path conditions* (lists of decisions that are all asserted up
front), never positional decision vectors, so an execution whose branching
order differs between runs (set iteration order) still covers its item.

Nothing in here signals through exceptions while code under test is on the
stack: circuits' dispatcher catches BaseException.  Engine faults are latched
in ``Engine.errors`` and turned into a harness error by the caller.

See /verif/DESIGN.md section 2.1.
"""

import time as _time
from fractions import Fraction

import z3

__all__ = [
    'Engine', 'Ctx', 'ConcreteCtx', 'PathEnd', 'SymBool', 'SymNum', 'Item',
    'is_sym', 'HarnessError',
]


class PathEnd(BaseException):
    """Raised by harness-level code only (never under the dispatcher) to end a path."""


class HarnessError(Exception):
    """The machinery (engine, double, harness) is at fault -- exit code 3, never a verdict."""


def is_sym(x):
    return isinstance(x, (SymNum, SymBool))


def _frac(v):
    """python number -> Fraction (exact)."""
    if isinstance(v, Fraction):
        return v
    if isinstance(v, bool):
        return Fraction(int(v))
    if isinstance(v, int):
        return Fraction(v)
    if isinstance(v, float):
        return Fraction(v)
    raise TypeError(type(v))


class SymBool:
    __slots__ = ('e', 'g')

    def __init__(self, g, e):
        self.g = g
        self.e = e

    def __bool__(self):
        return self.g._branch(self.e)

    def __repr__(self):
        return '<symbool %s>' % self.e

    def __invert__(self):
        return SymBool(self.g, z3.Not(self.e))

    def _coerce(self, o):
        if isinstance(o, SymBool):
            return o.e
        if isinstance(o, bool):
            return z3.BoolVal(o)
        return None

    def __and__(self, o):
        oe = self._coerce(o)
        if oe is None:
            return NotImplemented
        return SymBool(self.g, z3.And(self.e, oe))

    __rand__ = __and__

    def __or__(self, o):
        oe = self._coerce(o)
        if oe is None:
            return NotImplemented
        return SymBool(self.g, z3.Or(self.e, oe))

    __ror__ = __or__

    def __eq__(self, o):
        oe = self._coerce(o)
        if oe is None:
            return NotImplemented
        return SymBool(self.g, self.e == oe)

    def __ne__(self, o):
        oe = self._coerce(o)
        if oe is None:
            return NotImplemented
        return SymBool(self.g, self.e != oe)

    def __hash__(self):
        return hash(bool(self))


class SymNum:
    """Symbolic integer (is_int) or real."""

    __slots__ = ('e', 'g', 'is_int')

    def __init__(self, g, e, is_int):
        self.g = g
        self.e = e
        self.is_int = is_int

    # -- coercion ---------------------------------------------------------
    def _pair(self, o):
        """return (a, b, is_int) z3 terms of a common sort, or None"""
        if isinstance(o, SymNum):
            if self.is_int and o.is_int:
                return self.e, o.e, True
            a = z3.ToReal(self.e) if self.is_int else self.e
            b = z3.ToReal(o.e) if o.is_int else o.e
            return a, b, False
        if isinstance(o, bool):
            o = int(o)
        if isinstance(o, int):
            if self.is_int:
                return self.e, z3.IntVal(o), True
            return self.e, z3.RealVal(o), False
        if isinstance(o, (float, Fraction)):
            if isinstance(o, float) and (o != o or o in (float('inf'), float('-inf'))):
                return None
            f = _frac(o)
            a = z3.ToReal(self.e) if self.is_int else self.e
            return a, z3.RealVal(str(f)), False
        return None

    def _cmp(self, o, op):
        p = self._pair(o)
        if p is None:
            return NotImplemented
        a, b, _ = p
        return SymBool(self.g, op(a, b))

    def __lt__(self, o):
        return self._cmp(o, lambda a, b: a < b)

    def __le__(self, o):
        return self._cmp(o, lambda a, b: a <= b)

    def __gt__(self, o):
        return self._cmp(o, lambda a, b: a > b)

    def __ge__(self, o):
        return self._cmp(o, lambda a, b: a >= b)

    def __eq__(self, o):
        p = self._pair(o)
        if p is None:
            return False
        a, b, _ = p
        return SymBool(self.g, a == b)

    def __ne__(self, o):
        p = self._pair(o)
        if p is None:
            return True
        a, b, _ = p
        return SymBool(self.g, a != b)

    def _arith(self, o, op, swap=False):
        p = self._pair(o)
        if p is None:
            return NotImplemented
        a, b, ii = p
        if swap:
            a, b = b, a
        return SymNum(self.g, z3.simplify(op(a, b)), ii)

    def __add__(self, o):
        return self._arith(o, lambda a, b: a + b)

    def __radd__(self, o):
        return self._arith(o, lambda a, b: a + b, True)

    def __sub__(self, o):
        return self._arith(o, lambda a, b: a - b)

    def __rsub__(self, o):
        return self._arith(o, lambda a, b: a - b, True)

    def __mul__(self, o):
        return self._arith(o, lambda a, b: a * b)

    def __rmul__(self, o):
        return self._arith(o, lambda a, b: a * b, True)

    def __truediv__(self, o):
        p = self._pair(o)
        if p is None:
            return NotImplemented
        a, b, ii = p
        if ii:
            a, b = z3.ToReal(a), z3.ToReal(b)
        return SymNum(self.g, z3.simplify(a / b), False)

    def __floordiv__(self, o):
        if self.is_int and isinstance(o, int) and not isinstance(o, bool) and o > 0:
            return SymNum(self.g, z3.simplify(self.e / z3.IntVal(o)), True)
        self.g._engine_error('unsupported floordiv on %r by %r' % (self, o))
        return 0

    def __mod__(self, o):
        if self.is_int and isinstance(o, int) and not isinstance(o, bool) and o > 0:
            return SymNum(self.g, z3.simplify(self.e % z3.IntVal(o)), True)
        self.g._engine_error('unsupported mod on %r by %r' % (self, o))
        return 0

    def __neg__(self):
        return SymNum(self.g, z3.simplify(-self.e), self.is_int)

    def __pos__(self):
        return self

    def __abs__(self):
        return SymNum(self.g, z3.simplify(z3.If(self.e >= 0, self.e, -self.e)), self.is_int)

    def __bool__(self):
        return self.g._branch(self.e != 0)

    # -- concretisation -----------------------------------------------------
    def __index__(self):
        if not self.is_int:
            raise TypeError('symbolic real used as index')
        return self.g._concretise(self)

    def __int__(self):
        if self.is_int:
            return self.g._concretise(self)
        # int() must hand back a Python int: truncate towards zero and enumerate the feasible values (each is a branch);
        # finite only where the real is bounded on the path
        t = z3.If(self.e >= 0, z3.ToInt(self.e), -z3.ToInt(-self.e))
        return self.g._concretise(SymNum(self.g, t, True))

    def __float__(self):
        if self.is_int:
            return float(self.g._concretise(self))
        self.g._engine_error('float() of a symbolic real (would enumerate for ever): stub the caller')
        return 0.0

    def __hash__(self):
        if self.is_int:
            return hash(self.g._concretise(self))
        self.g._engine_error('hash() of a symbolic real')
        return 0

    def __repr__(self):
        return '<sym %s>' % self.e

    __str__ = __repr__

    def __format__(self, spec):
        return '<sym %s>' % self.e


class Item:
    """A work item: a path condition given as a list of decisions.

    decision = ('c', name, n, value)      -- choice variable `name` in [0,n) equals value
             | ('b', sexpr, polarity)     -- branch condition (SMT-LIB text) holds / does not hold
    decls: {var name: 'Int'|'Real'|'Bool'} for every variable mentioned in a 'b' decision.
    """

    __slots__ = ('decisions', 'decls')

    def __init__(self, decisions=(), decls=None):
        self.decisions = list(decisions)
        self.decls = dict(decls or {})

    def __reduce__(self):
        return (Item, (self.decisions, self.decls))


class Stats:
    FIELDS = ('paths', 'pruned_items', 'queries', 'solver_s', 'branches', 'forks', 'infeasible_sides',
              'asserts', 'asserts_discharged', 'choice_points', 'fastpath_hits', 'data_vars', 'choice_vars',
              'concretisations')

    def __init__(self):
        for f in self.FIELDS:
            setattr(self, f, 0)

    def add(self, other):
        for f in self.FIELDS:
            setattr(self, f, getattr(self, f) + (other[f] if isinstance(other, dict) else getattr(other, f)))

    def as_dict(self):
        d = {f: getattr(self, f) for f in self.FIELDS}
        d['solver_s'] = round(d['solver_s'], 3)
        return d


class Ctx:
    """Per-path handle given to the harness (symbolic mode)."""

    symbolic = True

    def __init__(self, engine, item):
        self.E = engine
        self.item = item
        self.decisions = list(item.decisions)    # grows along the path
        self.decls = dict(item.decls)
        self.vars = {}                           # name -> z3 const (declared on this path)
        self.choices = {}                        # name -> value taken on this path
        self.choice_order = []
        self._pre_choice = {}
        self._pre_branch = {}                    # ast id -> polarity
        self._keep = []                          # keep z3 refs alive so ids stay stable
        self._dec_set = {d[1] for d in item.decisions if d[0] == 'b'}
        self.model = None
        self.notes = []
        self.violations = []
        self.ended = False
        s = engine.solver
        s.push()
        for d in item.decisions:
            if d[0] == 'c':
                _, name, n, val = d
                self._pre_choice[name] = (n, val)
                v = z3.Int(name)
                self._keep.append(v)
                s.add(v == val)
            else:
                _, sexpr, pol = d
                t = engine._parse(sexpr, item.decls)
                self._keep.append(t)
                self._pre_branch[t.get_id()] = pol
                s.add(t if pol else z3.Not(t))
        self.feasible = self._refresh_model()

    # -- solver plumbing ------------------------------------------------------
    def _check(self):
        E = self.E
        t0 = _time.perf_counter()
        r = E.solver.check()
        if r == z3.unknown:
            # a starved machine can make a trivial query miss its wall-clock limit: ask again with more time before giving
            # up (still `unknown` afterwards = inconclusive, never a pass)
            for ms in (60000, 240000):
                E.solver.set('timeout', ms)
                r = E.solver.check()
                if r != z3.unknown:
                    break
            E.solver.set('timeout', E.solver_timeout_ms)
        E.stats.solver_s += _time.perf_counter() - t0
        E.stats.queries += 1
        return r

    def _refresh_model(self):
        r = self._check()
        if r == z3.sat:
            self.model = self.E.solver.model()
            return True
        if r == z3.unknown:
            self._engine_error('solver returned unknown on a path condition: %s' % self.E.solver.reason_unknown())
        self.model = None
        return False

    def _engine_error(self, msg):
        self.E.errors.append(msg)

    def _eval(self, term):
        if self.model is None:
            if not self._refresh_model():
                self._engine_error('path condition became unsatisfiable (engine bug)')
                return None
        return self.model.eval(term, model_completion=True)

    def _branch(self, cond):
        """decide a symbolic condition; returns a concrete bool"""
        E = self.E
        E.stats.branches += 1
        cond = z3.simplify(cond)
        if z3.is_true(cond):
            return True
        if z3.is_false(cond):
            return False
        cid = cond.get_id()
        pol = self._pre_branch.get(cid)
        if pol is not None:
            E.stats.fastpath_hits += 1
            return pol
        v = self._eval(cond)
        if v is None:
            return False
        side = z3.is_true(v)
        if not side and not z3.is_false(v):
            # model gives no definite value (should not happen with completion)
            self._engine_error('model evaluation inconclusive for %s' % cond)
            return False
        other = z3.Not(cond) if side else cond
        s = E.solver
        s.push()
        s.add(other)
        r = self._check()
        s.pop()
        sexpr = cond.sexpr()
        if r == z3.sat:
            E.stats.forks += 1
            E._push(Item(self.decisions + [('b', sexpr, not side)], self.decls))
        elif r == z3.unsat:
            E.stats.infeasible_sides += 1
        else:
            self._engine_error('solver unknown while testing branch %s' % sexpr)
        s.add(cond if side else z3.Not(cond))
        self._dec_set.add(sexpr)
        self.decisions.append(('b', sexpr, side))
        self._keep.append(cond)
        self._pre_branch[cid] = side
        return side

    def _concretise(self, sym):
        E = self.E
        E.stats.concretisations += 1
        v = self._eval(sym.e)
        if v is None:
            return 0
        val = v.as_long()
        # one ordinary branch: (term == val) is true in the model, the other side is forked
        ok = self._branch(sym.e == val)
        if not ok:
            self._engine_error('concretisation diverged')
        return val

    # -- harness API ------------------------------------------------------------
    def _declare(self, name, sort, kind):
        if name in self.vars:
            self._engine_error('variable %r declared twice on one path' % name)
        v = {'Int': z3.Int, 'Real': z3.Real, 'Bool': z3.Bool}[sort](name)
        self.vars[name] = v
        self.decls[name] = sort
        if name not in self.E.seen_vars:
            self.E.seen_vars[name] = kind
        return v

    def _domain(self, v, lo, hi):
        s = self.E.solver
        stale = False
        for b, op in ((lo, 'lo'), (hi, 'hi')):
            if b is None:
                continue
            be = b.e if isinstance(b, SymNum) else b
            if isinstance(be, (float, Fraction)) and not isinstance(be, bool):
                be = z3.RealVal(str(_frac(be)))
            c = (v >= be) if op == 'lo' else (v <= be)
            s.add(c)
            # constraints from declarations are part of the path condition for children
            sx = z3.simplify(c).sexpr()
            if sx not in self._dec_set:
                self._dec_set.add(sx)
                self.decisions.append(('b', sx, True))
            stale = True
        if stale:
            self.model = None

    def int(self, name, lo=None, hi=None):
        v = self._declare(name, 'Int', 'data')
        self._domain(v, lo, hi)
        return SymNum(self, v, True)

    def real(self, name, lo=None, hi=None):
        v = self._declare(name, 'Real', 'data')
        self._domain(v, lo, hi)
        return SymNum(self, v, False)

    def bool(self, name):
        v = self._declare(name, 'Bool', 'data')
        return SymBool(self, v)

    def choose(self, name, n, labels=None):
        """finite symbolic choice in [0,n); explored path-exhaustively"""
        if n <= 0:
            self._engine_error('choose(%r, %d)' % (name, n))
            return 0
        E = self.E
        if name in self.choices:
            self._engine_error('choice %r drawn twice on one path' % name)
        pre = self._pre_choice.get(name)
        if pre is not None:
            pn, val = pre
            if pn != n:
                self._engine_error('choice %r had %d alternatives, now %d: non-deterministic harness' % (name, pn, n))
                val = min(val, n - 1)
        else:
            E.stats.choice_points += 1
            val = 0
            v = z3.Int(name)
            for k in range(n - 1, 0, -1):
                E._push(Item(self.decisions + [('c', name, n, k)], self.decls))
            self.decisions.append(('c', name, n, 0))
            E.solver.add(v == 0)
        if name not in E.seen_vars:
            E.seen_vars[name] = 'choice'
        self.choices[name] = val
        self.choice_order.append((name, labels[val] if labels else val))
        return val

    def pick(self, name, seq):
        """choose one element of a non-empty sequence"""
        seq = list(seq)
        return seq[self.choose(name, len(seq))]

    def flag(self, name):
        return bool(self.choose(name, 2))

    def assume(self, cond):
        """harness-level only (never while code under test is on the stack)"""
        if isinstance(cond, SymBool):
            s = self.E.solver
            s.push()
            s.add(cond.e)
            r = self._check()
            s.pop()
            if r != z3.sat:
                if r == z3.unknown:
                    self._engine_error('unknown in assume')
                raise PathEnd('assumption infeasible')
            s.add(cond.e)
            sx = z3.simplify(cond.e).sexpr()
            if sx not in self._dec_set:
                self._dec_set.add(sx)
                self.decisions.append(('b', sx, True))
            self.model = None
        elif not cond:
            raise PathEnd('assumption false')

    # logical combinators that never branch
    def _b(self, x):
        if isinstance(x, SymBool):
            return x.e
        if isinstance(x, SymNum):
            return x.e != 0
        return z3.BoolVal(bool(x))

    def And(self, *xs):
        return SymBool(self, z3.And(*[self._b(x) for x in xs])) if xs else True

    def Or(self, *xs):
        return SymBool(self, z3.Or(*[self._b(x) for x in xs])) if xs else False

    def Not(self, x):
        return SymBool(self, z3.Not(self._b(x)))

    def Implies(self, a, b):
        return SymBool(self, z3.Implies(self._b(a), self._b(b)))

    def Ite(self, c, a, b):
        """numeric if-then-else without branching"""
        if not isinstance(c, SymBool):
            return a if c else b
        for x in (a, b):
            if isinstance(x, SymNum):
                p = x._pair(b if x is a else a)
                aa, bb, ii = p
                if x is b:
                    aa, bb = bb, aa
                return SymNum(self, z3.If(c.e, aa, bb), ii)
        return SymNum(self, z3.If(c.e, z3.RealVal(str(_frac(a))), z3.RealVal(str(_frac(b)))), False)

    def check(self, cond, clause, witness=None, detail=None):
        """assertion: discharged iff (path condition and not cond) is unsat.
        returns True when it holds on every input of this path."""
        E = self.E
        E.stats.asserts += 1
        if not isinstance(cond, SymBool):
            if cond:
                E.stats.asserts_discharged += 1
                return True
            self._violation(clause, witness, detail, None)
            return False
        s = E.solver
        s.push()
        s.add(z3.Not(cond.e))
        r = self._check()
        m = s.model() if r == z3.sat else None
        s.pop()
        if r == z3.unsat:
            E.stats.asserts_discharged += 1
            return True
        if r == z3.unknown:
            self._engine_error('solver unknown on assertion %s' % clause)
            return True
        self._violation(clause, witness, detail, m, formula=str(cond.e))
        return False

    def fail(self, clause, witness=None, detail=None):
        self.E.stats.asserts += 1
        self._violation(clause, witness, detail, None)

    def _violation(self, clause, witness, detail, model, formula=None):
        if model is None:
            if self.model is None:
                self._refresh_model()
            model = self.model
        values = {}
        if model is not None:
            for name, v in self.vars.items():
                val = model.eval(v, model_completion=True)
                values[name] = _z3val(val)
        self.violations.append({
            'clause': clause,
            'witness': dict(witness or {}),
            'detail': detail,
            'formula': formula,
            'values': values,
            'choices': dict(self.choices),
            'choice_order': [list(x) for x in self.choice_order],
        })

    def note(self, x):
        self.notes.append(x)

    def value_of(self, x):
        """a concrete witness value for x under the current model (for samples only)"""
        if isinstance(x, SymNum):
            v = self._eval(x.e)
            return _z3val(v) if v is not None else None
        if isinstance(x, SymBool):
            v = self._eval(x.e)
            return bool(z3.is_true(v)) if v is not None else None
        return x

    def close(self):
        self.E.solver.pop()


def _z3val(val):
    if z3.is_int_value(val):
        return val.as_long()
    if z3.is_rational_value(val):
        return str(Fraction(val.numerator_as_long(), val.denominator_as_long()))
    if z3.is_true(val):
        return True
    if z3.is_false(val):
        return False
    if z3.is_algebraic_value(val):
        return str(val.approx(10))
    return str(val)


class ConcreteCtx:
    """Replay handle: same API, plain Python values, no solver."""

    symbolic = False

    def __init__(self, values, choices):
        self.values = dict(values)
        self.choices_in = dict(choices)
        self.choices = {}
        self.choice_order = []
        self.violations = []
        self.notes = []
        self.missing = []

    def _num(self, name, real):
        if name not in self.values:
            self.missing.append(name)
            return Fraction(0) if real else 0
        v = self.values[name]
        if isinstance(v, str):
            v = Fraction(v)
        if isinstance(v, bool):
            return v
        if real:
            return Fraction(v)
        return int(v)

    def int(self, name, lo=None, hi=None):
        return self._num(name, False)

    def real(self, name, lo=None, hi=None):
        return self._num(name, True)

    def bool(self, name):
        return bool(self.values.get(name, False))

    def choose(self, name, n, labels=None):
        v = self.choices_in.get(name)
        if v is None:
            self.missing.append(name)
            v = 0
        v = min(int(v), n - 1)
        self.choices[name] = v
        self.choice_order.append((name, labels[v] if labels else v))
        return v

    def pick(self, name, seq):
        seq = list(seq)
        return seq[self.choose(name, len(seq))]

    def flag(self, name):
        return bool(self.choose(name, 2))

    def assume(self, cond):
        if not cond:
            raise PathEnd('assumption false')

    def And(self, *xs):
        return all(bool(x) for x in xs)

    def Or(self, *xs):
        return any(bool(x) for x in xs)

    def Not(self, x):
        return not x

    def Implies(self, a, b):
        return (not a) or bool(b)

    def Ite(self, c, a, b):
        return a if c else b

    def check(self, cond, clause, witness=None, detail=None):
        if cond:
            return True
        self.violations.append({'clause': clause, 'witness': dict(witness or {}), 'detail': detail})
        return False

    def fail(self, clause, witness=None, detail=None):
        self.violations.append({'clause': clause, 'witness': dict(witness or {}), 'detail': detail})

    def note(self, x):
        self.notes.append(x)

    def value_of(self, x):
        return x

    def _engine_error(self, msg):
        raise HarnessError(msg)


class Engine:
    def __init__(self, solver_timeout_ms=20000, seed=0):
        self.solver = z3.Solver()
        self.solver_timeout_ms = solver_timeout_ms
        self.solver.set('timeout', solver_timeout_ms)
        self.stats = Stats()
        self.errors = []
        self.work = []
        self.seen_vars = {}
        self._parse_cache = {}
        self.seed = seed

    def _push(self, item):
        self.work.append(item)

    def _parse(self, sexpr, decls):
        t = self._parse_cache.get(sexpr)
        if t is not None:
            return t
        if sexpr == 'true':
            t = z3.BoolVal(True)
        else:
            d = {}
            for name, sort in decls.items():
                d[name] = {'Int': z3.Int, 'Real': z3.Real, 'Bool': z3.Bool}[sort](name)
            vec = z3.parse_smt2_string('(assert %s)' % sexpr, decls=d)
            t = z3.simplify(vec[0])
        self._parse_cache[sexpr] = t
        if len(self._parse_cache) > 200000:
            self._parse_cache.clear()
        return t

    def run_item(self, harness, item):
        """execute one path; returns the Ctx (closed)"""
        g = Ctx(self, item)
        try:
            if not g.feasible:
                self.stats.pruned_items += 1
                return g
            try:
                harness(g)
            except PathEnd:
                g.ended = True
            self.stats.paths += 1
        finally:
            g.close()
        return g

    def explore(self, harness, items=None, max_paths=None, deadline=None, on_path=None, stop_when=None, bfs=False):
        """explore from the given items (default: the empty path condition) until the work list is empty,
        max_paths paths have run or the deadline passed.  returns remaining (unexplored) items."""
        if items is None:
            items = [Item()]
        self.work = list(items)
        n = 0
        while self.work:
            if max_paths is not None and n >= max_paths:
                break
            if deadline is not None and _time.time() > deadline:
                break
            if self.errors:
                break
            item = self.work.pop(0) if bfs else self.work.pop()
            g = self.run_item(harness, item)
            n += 1
            if on_path is not None:
                on_path(g)
            if stop_when is not None and stop_when():
                break
        rest = self.work
        self.work = []
        return rest
